"""CrossHair harness (engine B) for the netCDF attribute codec in xeofs/utils/io.py.

The REAL functions _sanitize_attrs_nc / _desanitize_attrs_nc are executed on a minimal tree object (they only use
.subtree, .attrs, .variables), so symbolic attribute values flow through the real code.
"""
from typing import Dict, List, Optional

from xeofs.utils import io


class _Node:
    def __init__(self, attrs):
        self.attrs = attrs
        self.variables = []


class _Tree:
    def __init__(self, attrs):
        self.subtree = [_Node(attrs)]


def _roundtrip(v):
    t = _Tree({"k": v})
    t = io._sanitize_attrs_nc(t)
    t = io._desanitize_attrs_nc(t)
    return t.subtree[0].attrs["k"]


def rt_str_no_exception(s: str) -> bool:
    """
    pre: len(s) <= 5
    post: _ == True
    """
    _roundtrip(s)
    return True


def rt_str_plain_is_identity(s: str) -> bool:
    """strings that do not look like a python literal come back unchanged
    pre: len(s) <= 5
    pre: not (len(s) > 0 and s[0] in '{[' ) and s not in ('True', 'False', 'None')
    post: _ == True
    """
    return _roundtrip(s) == s


def rt_optional_bool(b: Optional[bool]) -> bool:
    """
    post: _ == True
    """
    r = _roundtrip(b)
    return r is b


def rt_list_of_bools(xs: List[Optional[bool]]) -> bool:
    """
    pre: len(xs) <= 3
    post: _ == True
    """
    return _roundtrip(xs) == xs


def rt_list_of_ints(xs: List[int]) -> bool:
    """
    pre: len(xs) <= 3
    post: _ == True
    """
    return _roundtrip(xs) == xs


def rt_idempotent(s: str) -> bool:
    """decoding is stable: a second encode/decode does not change the value again
    pre: len(s) <= 4
    post: _ == True
    """
    a = _roundtrip(s)
    return _roundtrip(a) == a


def reach_twin(s: str) -> bool:
    """reachability witness: this postcondition is false on purpose and MUST be refuted
    pre: len(s) <= 5
    post: _ == False
    """
    _roundtrip(s)
    return True
