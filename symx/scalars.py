"""Symbolic scalars: Sym (real or complex Laurent polynomial), Rel (polynomial relation)."""
from __future__ import annotations

import math
import numbers
from fractions import Fraction

import numpy as np

from .ctx import EngineError, cur
from .poly import Poly, PONE, ZERO

_NEG = {"eq": "ne", "ne": "eq", "ge": "lt", "lt": "ge", "gt": "le", "le": "gt"}


class Rel:
    """p <kind> 0"""

    __slots__ = ("kind", "p")

    def __init__(self, kind, p: Poly):
        self.kind = kind
        self.p = p

    def negated(self) -> "Rel":
        return Rel(_NEG[self.kind], self.p)

    def concrete(self, v) -> bool:
        k = self.kind
        if isinstance(v, complex):
            if abs(v.imag) > 1e-12 * max(1.0, abs(v.real)):
                if k == "eq":
                    return False
                if k == "ne":
                    return True
                raise EngineError("ordering of complex values")
            v = v.real
        if k == "eq":
            return v == 0
        if k == "ne":
            return v != 0
        if k == "ge":
            return v >= 0
        if k == "gt":
            return v > 0
        if k == "le":
            return v <= 0
        if k == "lt":
            return v < 0
        raise EngineError(k)

    def __bool__(self):
        return cur().decide(self)

    def __invert__(self):
        return self.negated()

    def __and__(self, o):
        return bool(self) and bool(o)

    __rand__ = __and__

    def __or__(self, o):
        return bool(self) or bool(o)

    __ror__ = __or__

    def fmt(self, names=None):
        op = {"eq": "==", "ne": "!=", "ge": ">=", "gt": ">", "le": "<=", "lt": "<"}[self.kind]
        return f"{self.p.fmt(names)} {op} 0"

    def __repr__(self):
        return f"Rel({self.fmt()})"


def _is_nan(x) -> bool:
    return isinstance(x, (float, np.floating)) and x != x


def _is_cnan(x) -> bool:
    return isinstance(x, (complex, np.complexfloating)) and (x.real != x.real or x.imag != x.imag)


_EPS64 = float(np.finfo(np.float64).eps)


def _idealise_eps():
    from .ctx import active

    return active() and bool(cur().options.get("idealise_eps"))


def lift(x) -> Poly | None:
    """Number -> Poly ; returns None for NaN"""
    if isinstance(x, Sym):
        return x.p
    if isinstance(x, (SymFloat, SymInt)):
        return x.sym.p
    if isinstance(x, (bool, np.bool_)):
        return Poly.const(int(x))
    if isinstance(x, (int, np.integer)):
        return Poly.const(int(x))
    if isinstance(x, (float, np.floating)):
        if x != x:
            return None
        if math.isinf(x):
            raise EngineError("infinite constant")
        if x == _EPS64 and _idealise_eps():
            return ZERO  # additive stabiliser h + eps idealised to h (stated in the evidence)
        return Poly.const(float(x))
    if isinstance(x, Fraction):
        return Poly.const(x)
    if isinstance(x, (complex, np.complexfloating)):
        if x.real != x.real or x.imag != x.imag:
            return None
        return Poly.const(complex(x))
    return NotImplemented


class Sym:
    __slots__ = ("p",)

    def __init__(self, p: Poly):
        self.p = p

    # ---- helpers ----
    @staticmethod
    def of(x):
        if isinstance(x, Sym):
            return x
        p = lift(x)
        if p is None:
            return float("nan")
        if p is NotImplemented:
            raise EngineError(f"cannot lift {type(x).__name__}")
        return Sym(p)

    def is_complex(self):
        return self.p.has_I()

    def is_const(self):
        return self.p.is_const()

    def const(self):
        return self.p.const_value()

    def simplify(self):
        """-> python number if constant"""
        if self.p.is_const():
            c = self.p.const_value()
            if isinstance(c, complex):
                return c
            return float(c) if c.denominator != 1 else int(c)
        return self

    # ---- arithmetic ----
    def _bin(self, o, f):
        q = lift(o)
        if q is NotImplemented:
            return NotImplemented
        if q is None:
            return float("nan")
        return Sym(compact(f(self.p, q)))

    def __add__(self, o):
        return self._bin(o, lambda a, b: a + b)

    __radd__ = __add__

    def __sub__(self, o):
        return self._bin(o, lambda a, b: a - b)

    def __rsub__(self, o):
        return self._bin(o, lambda a, b: b - a)

    def __mul__(self, o):
        q = lift(o)
        if q is NotImplemented:
            return NotImplemented
        if q is None:
            return float("nan")
        return Sym(compact(mul_bounded(self.p, q)))

    __rmul__ = __mul__

    def __neg__(self):
        return Sym(-self.p)

    def __pos__(self):
        return self

    def __truediv__(self, o):
        q = lift(o)
        if q is NotImplemented:
            return NotImplemented
        if q is None:
            return float("nan")
        return Sym(compact(mul_bounded(self.p, reciprocal(q))))

    def __rtruediv__(self, o):
        q = lift(o)
        if q is NotImplemented:
            return NotImplemented
        if q is None:
            return float("nan")
        return Sym(compact(mul_bounded(q, reciprocal(self.p))))

    def __pow__(self, e):
        if isinstance(e, Sym):
            if e.is_const():
                e = e.const()
            else:
                raise EngineError("symbolic exponent")
        if isinstance(e, (float, np.floating)) and float(e).is_integer():
            e = int(e)
        if isinstance(e, Fraction) and e.denominator == 1:
            e = int(e)
        if isinstance(e, (int, np.integer)):
            e = int(e)
            if self.p.is_monomial() or e in (0, 1):
                return Sym(self.p ** e)
            base = self.p if e > 0 else reciprocal(self.p)
            r = base
            for _ in range(abs(e) - 1):
                r = compact(mul_bounded(r, base))
            return Sym(r)
        if isinstance(e, (float, np.floating, Fraction)):
            fr = Fraction(e).limit_denominator(64)
            if abs(float(fr) - float(e)) > 1e-12:  # (1/3 - 1)/2 arrives as -0.33333333333333337: the rational it rounds is meant
                raise EngineError(f"power {e}")
            return Sym(frac_power(self.p, fr))
        raise EngineError(f"power with exponent {type(e).__name__}")

    def __rpow__(self, b):
        raise EngineError("symbolic exponent")

    def __abs__(self):
        return sym_abs(self)

    def conjugate(self):
        return Sym(self.p.conj())

    conj = conjugate

    @property
    def real(self):
        return Sym(self.p.real())

    @property
    def imag(self):
        return Sym(self.p.imag())

    def sqrt(self):
        return Sym(frac_power(self.p, Fraction(1, 2)))

    # ---- comparisons ----
    def _cmp(self, o, kind):
        q = lift(o)
        if q is NotImplemented:
            return NotImplemented
        if q is None:
            return False  # comparisons with NaN are False
        d = self.p - q
        if d.has_I() and kind not in ("eq", "ne"):
            raise EngineError("ordering of complex symbols")
        if d.is_const():
            return Rel(kind, d).concrete(d.const_value())
        return Rel(kind, d)

    def __lt__(self, o):
        return self._cmp(o, "lt")

    def __le__(self, o):
        return self._cmp(o, "le")

    def __gt__(self, o):
        return self._cmp(o, "gt")

    def __ge__(self, o):
        return self._cmp(o, "ge")

    def __eq__(self, o):
        q = lift(o)
        if q is NotImplemented:
            return False
        if q is None:
            return False
        d = self.p - q
        if d.is_zero():
            return True
        if d.is_const():
            return False
        return Rel("eq", d)

    def __ne__(self, o):
        r = self.__eq__(o)
        if isinstance(r, Rel):
            return r.negated()
        return not r

    __hash__ = None

    def __bool__(self):
        if self.p.is_const():
            return self.p.const_value() != 0
        return bool(Rel("ne", self.p))

    def __float__(self):
        if self.p.is_real_const():
            return float(self.p.const_value())
        raise EngineError(f"float() of a symbolic value {self}")

    def __complex__(self):
        if self.p.is_const():
            return complex(self.p.const_value())
        raise EngineError("complex() of a symbolic value")

    def __int__(self):
        if self.p.is_real_const():
            return int(self.p.const_value())
        return floor_of(self)

    def __index__(self):
        raise EngineError("symbolic value used as index")

    def __format__(self, spec):
        return "<" + repr(self) + ">"

    def __repr__(self):
        try:
            names = cur().name_of
        except EngineError:
            names = None
        return self.p.fmt(names)

    def value(self):
        return cur().eval(self.p)


# ---------------------------------------------------------------------------------------
# let-binding of large intermediate expressions ("aliases"): keeps every polynomial bounded; the defining
# equation  alias == expression  is an ordinary assumption the solver can unfold

ALIAS_TERMS = 128  # a result with more terms than this is replaced by an alias
ALIAS_PRODUCT = 256  # operands are aliased first when the product would exceed this many terms


def alias_poly(p: Poly, why="large expression") -> Poly:
    c = cur()
    cache = c.caches.setdefault("alias", {})
    k = p.key()
    a = cache.get(k)
    if a is None:
        val = c.eval_or_none(p)
        if p.has_I():
            re = c.new_var(f"al{len(c.vars)}r", "aux", None if val is None else float(np.real(val)), why)
            im = c.new_var(f"al{len(c.vars)}i", "aux", None if val is None else float(np.imag(val)), why)
            a = re + Poly.I() * im
        else:
            if isinstance(val, complex):
                val = val.real
            a = c.new_var(f"al{len(c.vars)}", "aux", val, why)
        c.assume("eq", a - p, "def-alias")
        cache[k] = a
        if k in c.positive_polys and not p.has_I():
            c.assume("gt", a, "alias of an expression assumed positive")
    return a


def compact(p: Poly) -> Poly:
    if len(p.t) > ALIAS_TERMS and cur_active():
        lim = cur().options.get("alias_terms", ALIAS_TERMS)
        if len(p.t) > lim:
            return alias_poly(p)
    return p


def mul_bounded(a: Poly, b: Poly) -> Poly:
    la, lb = len(a.t), len(b.t)
    if la * lb > ALIAS_PRODUCT and cur_active():
        lim = cur().options.get("alias_product", ALIAS_PRODUCT)
        if la * lb > lim:
            if la >= lb and la > 1:
                a = alias_poly(a)
                la = 1
            if la * lb > lim and lb > 1:
                b = alias_poly(b)
            elif la * lb > lim and la > 1:
                a = alias_poly(a)
    return a * b


def cur_active():
    from .ctx import active

    return active()


# ---------------------------------------------------------------------------------------
# non-polynomial operations -> fresh variables with defining assumptions


def reciprocal(q: Poly) -> Poly:
    if q.is_zero():
        raise ZeroDivisionError("division by exact zero")
    if q.is_monomial():
        return q.inv_monomial()
    if q.has_I():
        if len(q.t) > 12:
            q = alias_poly(q)
        den = (q * q.conj()).real()
        return mul_bounded(q.conj(), reciprocal(den))
    c = cur()
    # factor out the monomial content: 1/(g*q') = g^-1 * 1/q'  (so that c^2*t and t share one denominator symbol)
    common = None
    for m in q.t:
        d = dict(m)
        d.pop(0, None)
        if common is None:
            common = d
        else:
            common = {v: (min(ex, d[v]) if ex > 0 else max(ex, d[v])) for v, ex in common.items() if v in d and (d[v] > 0) == (ex > 0)}
        if not common:
            break
    if common:
        g = tuple(sorted(common.items()))
        ginv = tuple((v, -ex) for v, ex in g)
        rest = q.mul_mono(ginv)
        return reciprocal(rest).mul_mono(ginv)
    if len(q.t) > 24:
        q = alias_poly(q)
        return q.inv_monomial()
    cache = c.caches.setdefault("recip", {})
    k = q.key()
    # normalise sign/scale so that e and -e, 2e share the denominator variable
    lead_m, lead_c = min(q.t.items())
    qn = q.scale(1 / lead_c)
    kn = qn.key()
    if kn not in cache:
        try:
            v = c.eval(qn)
            v = v.real if isinstance(v, complex) else v
        except EngineError:
            v = None
        if v is not None and v == 0:
            raise ZeroDivisionError("division by a value that is zero at the witness")
        d = c.new_var(f"d{len(c.vars)}", "aux", v, f"denominator {qn.fmt(c.name_of, 6)}")
        c.assume("eq", d - qn, "def-denominator")
        c.assume("ne", d, "denominator non-zero")
        cache[kn] = d
    d = cache[kn]
    return d.inv_monomial().scale(1 / lead_c)


def frac_power(q: Poly, e: Fraction) -> Poly:
    """q**e for rational e via a fresh root variable y >= 0 with y**den == q (q real, assumed >= 0)"""
    if e.denominator == 1:
        n = int(e)
        return q ** n if n >= 0 else reciprocal(q) ** (-n)
    if q.is_zero():
        return ZERO
    if q.has_I():
        if e != Fraction(1, 2):
            raise EngineError("fractional power of a complex value")
        return complex_sqrt(q)
    if q.is_real_const():
        cv = q.const_value()
        r = float(cv) ** float(e)
        fr = Fraction(r).limit_denominator(10**6)
        if fr ** e.denominator == cv ** e.numerator:
            return Poly.const(fr)
    c = cur()
    den = e.denominator
    if den == 2 and (c.positive_vars or c.nonneg_vars) and len(q.t) >= 1:
        # sqrt(v^2 * q') = v * sqrt(q') for variables known to be positive (e.g. std(a*x) = a*std(x))
        common = None
        for m in q.t:
            d = {v: ex for v, ex in m if (v in c.positive_vars or v in c.nonneg_vars) and ex >= 2}
            if common is None:
                common = d
            else:
                common = {v: min(ex, d[v]) for v, ex in common.items() if v in d}
            if not common:
                break
        if common:
            fac = tuple(sorted((v, ex - ex % 2) for v, ex in common.items() if ex - ex % 2 >= 2))
            if fac:
                inv = tuple((v, -ex) for v, ex in fac)
                half = tuple((v, ex // 2) for v, ex in fac)
                rest = q.mul_mono(inv)
                inner = frac_power(rest, Fraction(1, 2))
                out = inner.mul_mono(half)
                n = e.numerator
                if n == 1:
                    return out
                if n == -1:
                    return reciprocal(out)
                return Sym(out).__pow__(n).p
    if den == 2 and len(q.t) >= 1:
        # factor the rational content: sqrt(c * q') = sqrt(c) * sqrt(q') with q' monic in its first monomial, so that
        # sqrt(3*t), sqrt(t/3) and sqrt(t) share ONE root symbol for t and one for the square-free part of the constant
        lead_m, lead_c = min(q.t.items())
        if lead_c > 0 and lead_c != 1:
            qn = q.scale(1 / lead_c)
            inner = frac_power(qn, Fraction(1, 2))
            N = lead_c.numerator * lead_c.denominator
            msq, f = 1, N
            d_ = 2
            while d_ * d_ <= f:
                while f % (d_ * d_) == 0:
                    f //= d_ * d_
                    msq *= d_
                d_ += 1
            coef = Fraction(msq, lead_c.denominator)
            out = inner.scale(coef)
            if f > 1:
                kc = c.caches.setdefault("sqrt_const", {})
                if f not in kc:
                    kv = c.new_var(f"SQRT{f}", "aux", math.sqrt(f), f"sqrt({f})")
                    c.assume("eq", kv * kv - Poly.const(f), "def-root (constant)")
                    c.assume("gt", kv, "root positive")
                    kc[f] = kv
                out = out * kc[f]
            n = e.numerator
            if n == 1:
                return out
            if n == -1:
                return reciprocal(out)
            return Sym(out).__pow__(n).p
    cache = c.caches.setdefault("root", {})
    k = (q.key(), den)
    if k not in cache:
        try:
            v = c.eval(q)
            v = v.real if isinstance(v, complex) else v
            if v < 0:
                if v > -1e-9:
                    v = 0.0
                elif not c.on_witness:
                    v = None
                else:
                    raise EngineError(f"root of a value negative at the witness ({v})")
            rv = None if v is None else v ** (1.0 / den)
        except EngineError as ex:
            if "no witness" in str(ex):
                rv = None
            else:
                raise
        y = c.new_var(f"r{len(c.vars)}", "aux", rv, f"{den}-th root of {q.fmt(c.name_of, 6)}")
        c.assume("eq", y ** den - q, "def-root")
        c.assume("ge", y, "root non-negative")
        cache[k] = y
    y = cache[k]
    n = e.numerator
    if n >= 0:
        return y ** n
    return y.inv_monomial() ** (-n)  # y != 0 is implied where xeofs divides by it


def complex_sqrt(q: Poly) -> Poly:
    """principal square root of a complex value: fresh w with w*w == q and Re(w) >= 0"""
    c = cur()
    if len(q.t) > 12:
        q = alias_poly(q)
    cache = c.caches.setdefault("csqrt", {})
    k = q.key()
    if k not in cache:
        v = c.eval_or_none(q)
        wv = None if v is None else np.sqrt(complex(v))
        re = c.new_var(f"cr{len(c.vars)}", "aux", None if wv is None else float(wv.real), "Re sqrt")
        im = c.new_var(f"ci{len(c.vars)}", "aux", None if wv is None else float(wv.imag), "Im sqrt")
        w = re + Poly.I() * im
        c.assume("eq", w * w - q, "def-complex-sqrt")
        c.assume("ge", re, "principal branch")
        cache[k] = w
    return cache[k]


def sym_abs(x: Sym):
    p = x.p
    if p.has_I():
        if len(p.t) > 12:
            p = alias_poly(p)
        return Sym(frac_power(compact((p * p.conj()).real()), Fraction(1, 2)))
    if p.is_const():
        return Sym(Poly.const(abs(p.const_value())))
    mode = cur().options.get("abs", "fresh")
    if mode == "fork":
        if bool(Rel("ge", p)):
            return x
        return Sym(-p)
    c = cur()
    if len(p.t) > 12:
        p = alias_poly(p)
    cache = c.caches.setdefault("abs", {})
    k = p.key()
    if k not in cache:
        v = c.eval_or_none(p)
        v = None if v is None else abs(v)
        a = c.new_var(f"a{len(c.vars)}", "aux", v, f"|{p.fmt(c.name_of, 6)}|")
        c.assume("eq", a * a - p * p, "def-abs")
        c.assume("ge", a, "abs non-negative")
        c.assume("ge", a - p, "abs >= x")
        c.assume("ge", a + p, "abs >= -x")
        cache[k] = a
    return Sym(cache[k])


def fresh(name, kind="input", value=None, origin="") -> Sym:
    return Sym(cur().new_var(name, kind, value, origin))


def fresh_complex(name, kind="input", value=None, origin="") -> Sym:
    c = cur()
    re = c.new_var(name + "_re", kind, None if value is None else float(np.real(value)), origin)
    im = c.new_var(name + "_im", kind, None if value is None else float(np.imag(value)), origin)
    return Sym(re + Poly.I() * im)


# ---------------------------------------------------------------------------------------
# symbolic parameters that must pass isinstance(x, float) / isinstance(x, int) and `match x: case float():`


def _num_ops(cls):
    def binop(name, rname=None):
        def f(self, o):
            return getattr(self.sym, name)(o)

        return f

    for nm in ("__add__", "__radd__", "__sub__", "__rsub__", "__mul__", "__rmul__", "__truediv__", "__rtruediv__", "__pow__", "__neg__", "__lt__", "__le__", "__gt__", "__ge__"):
        if nm == "__neg__":
            setattr(cls, nm, lambda self: -self.sym)
        else:
            setattr(cls, nm, binop(nm))
    cls.__eq__ = lambda self, o: self.sym.__eq__(o)
    cls.__ne__ = lambda self, o: self.sym.__ne__(o)
    cls.__hash__ = lambda self: hash(("symnum", id(self)))
    cls.__bool__ = lambda self: bool(self.sym)
    return cls


@_num_ops
class SymFloat(float):
    """a float (witness value) carrying a symbolic variable; comparisons and arithmetic are symbolic"""

    def __new__(cls, value, sym):
        o = float.__new__(cls, value)
        o.sym = sym
        return o

    def __repr__(self):
        return f"SymFloat({float.__repr__(self)})"

    def __format__(self, spec):
        return float.__format__(float(self), spec)

    def __float__(self):
        return float.__add__(self, 0.0)


@_num_ops
class SymInt(int):
    def __new__(cls, value, sym):
        o = int.__new__(cls, value)
        o.sym = sym
        return o

    def __repr__(self):
        return f"SymInt({int.__repr__(self)})"

    def __index__(self):
        return int.__add__(self, 0)

    def __int__(self):
        return int.__add__(self, 0)


def floor_of(x, name="fl"):
    """int(x) for a symbolic non-negative x: fresh q with q <= x < q + 1 (integrality is NOT known to the real-arithmetic
    solver: weaker, still sound for 'unsat')"""
    c = cur()
    p = lift(x)
    cache = c.caches.setdefault("floor", {})
    k = p.key()
    if k not in cache:
        v = c.eval_or_none(p)
        wv = None if v is None else float(math.floor(v.real if isinstance(v, complex) else v))
        q = c.new_var(f"{name}{len(c.vars)}", "aux", wv, f"floor({p.fmt(c.name_of, 4)})")
        c.assume("ge", p - q, "def-floor: q <= x")
        c.assume("gt", q + PONE - p, "def-floor: x < q + 1")
        cache[k] = (q, wv)
    q, wv = cache[k]
    return SymInt(int(wv) if wv is not None else 0, Sym(q))
