"""Running one configuration: path exploration, discharge, float reference, replay of candidates."""
from __future__ import annotations

import json
import os
import time
import traceback
import warnings

import dask
import numpy as np

dask.config.set(scheduler="synchronous")

from . import decide as D
from . import stubs
from .ctx import Ctx, EngineError, PathInfeasible, PathLimit, use_ctx
from .harness import FloatBackend, SymBackend

TIER_OPTS = {
    # cross_check: number of z3 `unsat` verdicts per path that are re-decided by cvc5 on the exported query
    "quick": {"max_paths": 48, "rounds": 2, "maxdeg": 6, "timeout_ms": 20000, "cross_check": 8},
    "thorough": {"max_paths": 512, "rounds": 3, "maxdeg": 8, "timeout_ms": 60000, "cross_check": 60},
}


def run_float(fn, params, cfg_key, seed, rtol=1e-8, tier="quick", override=None):
    """the harness on the real float code (no stubs, no patches)"""
    B = FloatBackend(cfg_key, seed, rtol, tier)
    B.override = dict(override or {})
    err = None
    with warnings.catch_warnings(), stubs.recorders(B):
        warnings.simplefilter("ignore")
        try:
            fn(B, **params)
        except Exception as e:  # an exception outside B.completes/B.raises
            tb = traceback.extract_tb(e.__traceback__)
            where = ""
            for fr in reversed(tb):
                if "/xeofs/" in fr.filename:
                    where = f" at {fr.filename.split('/xeofs/')[-1]}:{fr.lineno}"
                    break
            err = f"{type(e).__name__}: {str(e)[:200]}{where}"
    return B, err


def run_config(fn, params, cfg_key, seed=0, tier="quick", options=None, max_paths=None):
    """-> result dict (picklable)"""
    t0 = time.time()
    opts = dict(TIER_OPTS[tier])
    if options:
        opts.update(options)
    if max_paths:
        opts["max_paths"] = max_paths
    D.STATS.update({"queries": 0, "solver_time": 0.0, "lemmas": 0, "unknown": 0, "cvc5_queries": 0, "cvc5_agree": 0, "cvc5_unknown": 0, "cvc5_time": 0.0})
    res = {
        "cfg": cfg_key,
        "params": _jsonable(params),
        "paths": 0,
        "paths_witnessed": 0,
        "paths_infeasible": 0,
        "paths_incomplete": 0,
        "obligations": 0,
        "discharged": 0,
        "goals": 0,
        "goals_proved": 0,
        "open": [],
        "violations": [],
        "engine_errors": [],
        "samples": [],
        "functions": [],
        "stubs": [],
        "notes": [],
        "assumption_tags": [],
        "vacuity_ok": None,
    }
    # float reference first: real code on the witness inputs
    FB, ferr = run_float(fn, params, cfg_key, seed, rtol=opts.get("float_rtol", 1e-8), tier=tier)
    tries = 0
    while ferr is not None and "did not converge" in ferr and tries < 4:
        # the iterative rotation did not converge on this random witness: not a verdict, draw another witness
        tries += 1
        seed = seed + 7919
        FB, ferr = run_float(fn, params, cfg_key, seed, rtol=opts.get("float_rtol", 1e-8), tier=tier)
        res["notes"].append("witness redrawn: Varimax iteration did not converge on the first random input")
    float_status = {o.name: o for o in FB.obligations}
    queue = [[]]
    seen_plans = set()
    sym_exception_paths = []
    tags = set()
    stubset = set()
    first = True
    budget = opts.get("budget_s", 150 if tier == "quick" else 900)
    while queue:
        if time.time() - t0 > budget and res["paths"] >= 1:
            res["paths_incomplete"] += len(queue)
            res["notes"].append(f"time budget of {budget}s reached: {len(queue)} pending path(s) not explored")
            break
        if res["paths"] + res["paths_infeasible"] >= opts["max_paths"]:
            res["paths_incomplete"] += len(queue)
            break
        plan = queue.pop()
        key = tuple(plan)
        if key in seen_plans:
            continue
        seen_plans.add(key)
        opts["deadline"] = t0 + budget
        ctx = Ctx(plan=plan, seed=seed, options=opts)
        B = SymBackend(ctx, cfg_key, seed, tier)
        B.refuted = {v["obligation"] for v in res["violations"]}
        sym_err = None
        with use_ctx(ctx), stubs.installed(), warnings.catch_warnings():
            warnings.simplefilter("ignore")
            try:
                fn(B, **params)
                B.discharge(rounds=opts["rounds"], maxdeg=opts["maxdeg"], timeout_ms=opts["timeout_ms"])
            except PathInfeasible:
                res["paths_infeasible"] += 1
                queue.extend(ctx.pending)
                continue
            except PathLimit as e:
                res["paths_incomplete"] += 1
                res["notes"].append(f"path limit: {e}")
                queue.extend(ctx.pending)
                continue
            except EngineError as e:
                tb = traceback.format_exc().splitlines()
                res["engine_errors"].append(f"{e} | " + " / ".join(l.strip() for l in tb[-8:-1] if "File" in l)[-400:])
                queue.extend(ctx.pending)
                continue
            except Exception as e:
                tb = traceback.extract_tb(e.__traceback__)
                where = ""
                for fr in reversed(tb):
                    if "/xeofs/" in fr.filename:
                        where = f" at {fr.filename.split('/xeofs/')[-1]}:{fr.lineno}"
                        break
                sym_err = f"{type(e).__name__}: {str(e)[:200]}{where}"
                try:
                    B.discharge(rounds=opts["rounds"], maxdeg=opts["maxdeg"], timeout_ms=opts["timeout_ms"])
                except Exception:
                    pass
        queue.extend(ctx.pending)
        res["paths"] += 1
        if ctx.on_witness:
            res["paths_witnessed"] += 1
        if first:
            # vacuity guard + translation validation of the stub contracts, once per configuration
            try:
                v = D.consistent(ctx)
                res["vacuity_ok"] = v != "unsat"
                if v == "unsat":
                    res["engine_errors"].append("assumptions + path condition are contradictory (every obligation would be vacuously true)")
                if ctx.on_witness:
                    wr, wtag = D.witness_contract_residual(ctx)
                    res["witness_contract_residual"] = wr
                    if wr is not None and wr > 1e-6:
                        res["engine_errors"].append(f"a stub contract does not hold for what the real routine returned at the witness (residual {wr:.2e} in '{wtag}')")
            except Exception as e:  # noqa
                res["notes"].append(f"vacuity guard failed to run: {e}")
        for a in ctx.assumptions:
            tags.add(a.tag.split("#")[0].split(":")[-1].strip() if ":" in a.tag else a.tag)
        for s in ctx.stub_log:
            stubset.add(s["stub"])
        res["functions"] = sorted(set(res["functions"]) | B.functions)
        for n in B.notes + ctx.notes:
            if n not in res["notes"]:
                res["notes"].append(n)
        if sym_err is not None:
            # an exception that escaped the harness: real-code behaviour unless the float run disagrees
            if ferr is not None and ferr.split(":")[0] == sym_err.split(":")[0]:
                res["violations"].append({"obligation": "harness:unexpected-exception", "detail": sym_err, "path": ctx.describe_path()[:6], "confirmed": True})
            else:
                res["engine_errors"].append(f"symbolic run raised {sym_err} but the float run did not ({ferr})")
            continue
        for ob in B.obligations:
            res["obligations"] += 1
            res["goals"] += ob.n_goals
            res["goals_proved"] += ob.n_proved
            if ob.status == "proved":
                res["discharged"] += 1
                if ob.sample and len(res["samples"]) < 3 and first:
                    res["samples"].append({"obligation": ob.name, "verdict": ob.detail, "text": ob.sample})
                continue
            fo = float_status.get(ob.name)
            entry = {"obligation": ob.name, "status": ob.status, "detail": ob.detail, "path": ctx.describe_path()[:6], "witnessed": ctx.on_witness, "phash": _phash(ctx), "plan": list(plan)}
            if ob.status == "failed-concrete":
                # structural / exception obligations: decided concretely on this path. Replay = float run.
                if fo is not None and fo.status in ("failed-concrete", "violated"):
                    entry["confirmed"] = True
                    entry["float_detail"] = fo.detail
                    res["violations"].append(entry)
                elif ctx.on_witness:
                    res["engine_errors"].append(f"obligation {ob.name} failed concretely on the witness path ({ob.detail}) but holds in the float run")
                else:
                    entry["confirmed"] = False
                    res["open"].append(entry)
                continue
            # status == open : candidate only if the witness residual is non-zero and the float replay agrees
            if ctx.on_witness and ob.resid is not None and ob.resid > 1e-7:
                if fo is not None and fo.status == "violated":
                    entry["confirmed"] = True
                    entry["float_detail"] = fo.detail
                    res["violations"].append(entry)
                    continue
                if fo is not None and fo.status == "proved":
                    res["engine_errors"].append(f"obligation {ob.name}: symbolic witness residual {ob.resid:.2e} but the float run satisfies it - engine/witness mismatch")
                    continue
            if ctx.on_witness and fo is not None and fo.status in ("violated", "failed-concrete"):
                entry["confirmed"] = True
                entry["float_detail"] = fo.detail
                res["violations"].append(entry)
                continue
            res["open"].append(entry)
        # translation validation on the witness path: float lhs values == symbolic lhs values at the witness
        first = False
    # ---- witness search for paths that were explored without a numeric witness and left obligations open
    unw = [e for e in res["open"] if not e.get("witnessed")]
    n_extra = opts.get("extra_witnesses", 6 if tier == "quick" else 16)
    # candidate witnesses: the recorded corpus for this configuration first (seeds known to reach rare paths of the
    # unchanged code, see tools/find_witness_seeds.py; hints only - a seed that reaches nothing costs one run), then fresh ones
    cand = [int(x) for x in opts.get("witness_seeds", [])] + [seed + 104729 * i for i in range(1, n_extra + 1)]
    tried = 0
    while unw and tried < len(cand) and time.time() - t0 < budget * 1.2:
        seed_s = cand[tried]
        tried += 1
        FBs, ferrs = run_float(fn, params, cfg_key, seed_s, rtol=opts.get("float_rtol", 1e-8), tier=tier)
        if ferrs is not None:
            continue
        fstat = {o.name: o for o in FBs.obligations}
        ctx = Ctx(plan=[], seed=seed_s, options=opts)
        B = SymBackend(ctx, cfg_key, seed_s, tier)
        try:
            with use_ctx(ctx), stubs.installed(), warnings.catch_warnings():
                warnings.simplefilter("ignore")
                fn(B, **params)
                h = _phash(ctx)
                targets = [e for e in unw if e["phash"] == h]
                if not targets or not ctx.on_witness:
                    continue
                names = {e["obligation"] for e in targets}
                B.pending_goals = [pg for pg in B.pending_goals if pg[0].name in names]
                B.refuted = set(names)  # cheap mode: the point is the residual at this witness
                B.discharge(rounds=1, maxdeg=opts["maxdeg"], timeout_ms=opts["timeout_ms"])
        except (PathInfeasible, PathLimit, EngineError, Exception):
            continue
        res["notes"].append(f"extra witness seed {seed_s} reached a previously unwitnessed path")
        for ob in B.obligations:
            if ob.name not in names or ob.status == "proved":
                continue
            fo = fstat.get(ob.name)
            bad_sym = ob.status == "failed-concrete" or (ob.resid is not None and ob.resid > 1e-7)
            if bad_sym and fo is not None and fo.status in ("violated", "failed-concrete"):
                res["violations"].append({"obligation": ob.name, "status": ob.status, "detail": ob.detail, "path": ctx.describe_path()[:6], "witnessed": True, "confirmed": True, "float_detail": fo.detail, "seed": seed_s})
                res["open"] = [e for e in res["open"] if not (e["phash"] == h and e["obligation"] == ob.name)]
        unw = [e for e in res["open"] if not e.get("witnessed")]
    # ---- solver-made witnesses: for a path nobody witnessed, ask the solver for values of the scalar inputs (sym_int /
    # sym_float / scalar) that satisfy the path condition, execute them, and treat the run as any other witness
    # two kinds of candidates: "abstract" = model of the QF_LRA abstraction of assumptions + path condition (all variables free);
    # "at-witness" = all non-scalar variables fixed at their witness values, path condition solved exactly for the scalar inputs
    for _mode in ("abstract", "at-witness"):
        unw = [e for e in res["open"] if not e.get("witnessed")]
        done_paths = set()
        for e0 in unw:
            if time.time() - t0 > budget * 1.3 or len(done_paths) >= opts.get("solver_witnesses", 6 if _mode == "abstract" else 16):
                break
            h0 = e0["phash"]
            if h0 in done_paths:
                continue
            done_paths.add(h0)
            try:
                ctx0 = Ctx(plan=e0.get("plan", []), seed=seed, options=opts)
                B0 = SymBackend(ctx0, cfg_key, seed, tier)
                with use_ctx(ctx0), stubs.installed(), warnings.catch_warnings():
                    warnings.simplefilter("ignore")
                    try:
                        fn(B0, **params)
                    except (PathInfeasible, PathLimit, EngineError):
                        continue
                    except Exception:  # noqa - the path may end in an exception of the code under test; its condition is still usable
                        pass
                if _phash(ctx0) != h0 or not B0.scalar_names:
                    continue
                ov = (D.input_model if _mode == "abstract" else D.input_model_at_witness)(ctx0, set(B0.scalar_names))
                if not ov:
                    continue
                FBs, ferrs = run_float(fn, params, cfg_key, seed, rtol=opts.get("float_rtol", 1e-8), tier=tier, override=ov)
                fstat = {o.name: o for o in FBs.obligations}
                ctx = Ctx(plan=[], seed=seed, options=opts)
                B = SymBackend(ctx, cfg_key, seed, tier)
                B.override = dict(ov)
                with use_ctx(ctx), stubs.installed(), warnings.catch_warnings():
                    warnings.simplefilter("ignore")
                    try:
                        fn(B, **params)
                    except (PathInfeasible, PathLimit, EngineError):
                        continue
                    except Exception:  # noqa
                        pass
                    h1 = _phash(ctx)
                    names = {e["obligation"] for e in res["open"] if e.get("phash") == h1 and not e.get("witnessed")}
                    if not ctx.on_witness:
                        continue
                    if not names:
                        # the candidate left the targeted path (integer rounding; int(...) of a symbolic value is concretised at the
                        # witness, so the path condition itself depends on it). It is still an execution of the real code: an
                        # obligation that is open without witness AND fails concretely on it, in both backends, is a replayed counterexample
                        open_names = {e["obligation"] for e in res["open"] if not e.get("witnessed")}
                        hit = False
                        for ob in B.obligations:
                            fo = fstat.get(ob.name)
                            if ob.name in open_names and ob.status == "failed-concrete" and fo is not None and fo.status in ("violated", "failed-concrete"):
                                res["violations"].append({"obligation": ob.name, "status": ob.status, "detail": ob.detail, "path": ctx.describe_path()[:6], "witnessed": True, "confirmed": True, "float_detail": fo.detail, "seed": seed, "override": ov, "solver_made_witness": True})
                                res["open"] = [e for e in res["open"] if not (e["obligation"] == ob.name and not e.get("witnessed"))]
                                hit = True
                        res["notes"].append(f"solver-made witness {ov} left the targeted path" + (" and violates an open obligation concretely" if hit else ""))
                        continue
                    h0 = h1
                    B.pending_goals = [pg for pg in B.pending_goals if pg[0].name in names]
                    B.refuted = set(names)
                    B.discharge(rounds=1, maxdeg=opts["maxdeg"], timeout_ms=opts["timeout_ms"])
            except Exception as ex:  # noqa
                res["notes"].append(f"solver-made witness failed: {type(ex).__name__}: {str(ex)[:80]}")
                continue
            res["notes"].append(f"solver-made witness ({_mode}) {ov} follows a previously unwitnessed path")
            for ob in B.obligations:
                if ob.name not in names or ob.status == "proved":
                    continue
                fo = fstat.get(ob.name)
                bad_sym = ob.status == "failed-concrete" or (ob.resid is not None and ob.resid > 1e-7)
                if bad_sym and fo is not None and fo.status in ("violated", "failed-concrete"):
                    res["violations"].append({"obligation": ob.name, "status": ob.status, "detail": ob.detail, "path": ctx.describe_path()[:6], "witnessed": True, "confirmed": True, "float_detail": fo.detail, "seed": seed, "override": ov, "solver_made_witness": True})
                    res["open"] = [e for e in res["open"] if not (e["phash"] == h0 and e["obligation"] == ob.name)]
    for e in res["open"]:
        e.pop("phash", None)
        e.pop("plan", None)
    for e in res["violations"]:
        e.pop("phash", None)
        e.pop("plan", None)
    if res["engine_errors"] and (not res["paths"] or res.get("vacuity_ok") is False):
        # the code under test left the encodable fragment (no symbolic path completed). No 'holds' verdict is possible,
        # but the concrete run of the same harness on the real code is still a replayed execution: an obligation it
        # violates is a genuine counterexample and is reported as such (the engine error is kept as well).
        # no symbolic corroboration here, so rounding must not be mistaken for a violation: judge at a loose tolerance
        FBl, _ = run_float(fn, params, cfg_key, seed, rtol=max(1e-5, opts.get("float_rtol", 1e-8)), tier=tier)
        for o in FBl.obligations:
            if o.status in ("violated", "failed-concrete"):
                res["violations"].append({"obligation": o.name, "status": o.status, "detail": f"concrete run on the real code (symbolic encoding unavailable: {res['engine_errors'][0][:120]}): {o.detail}", "path": [], "witnessed": True, "confirmed": True, "float_detail": o.detail, "concrete_only": True})
        if ferr is not None and " at " in ferr:
            res["violations"].append({"obligation": "harness:unexpected-exception", "detail": f"concrete run on the real code (symbolic encoding unavailable): {ferr}", "path": [], "confirmed": True, "concrete_only": True})
    if ferr is not None and not any(v["obligation"] == "harness:unexpected-exception" for v in res["violations"]):
        if res["paths"] and not res["engine_errors"]:
            res["engine_errors"].append(f"float run raised {ferr} but no symbolic path did")
    # an obligation that stays open on a path nobody witnessed, and that the concrete run of the harness on the real code
    # violates (judged at the loose tolerance): the concrete run is the counterexample, whichever path it belongs to
    open_unw = {o["obligation"] for o in res["open"] if not o.get("witnessed")} - {v["obligation"] for v in res["violations"]}
    if open_unw and any(o.status in ("violated", "failed-concrete") and o.name in open_unw for o in FB.obligations):
        FBl, _ = run_float(fn, params, cfg_key, seed, rtol=max(1e-5, opts.get("float_rtol", 1e-8)), tier=tier)
        for o in FBl.obligations:
            if o.name in open_unw and o.status in ("violated", "failed-concrete"):
                res["violations"].append({"obligation": o.name, "status": o.status, "detail": f"open on an unwitnessed symbolic path; violated by the concrete run on the real code: {o.detail}", "path": [], "witnessed": True, "confirmed": True, "float_detail": o.detail, "concrete_only": True})
                res["open"] = [e for e in res["open"] if e["obligation"] != o.name or e.get("witnessed")]
    # float obligations that fail although every symbolic path proved them: engine unsound or rounding
    names_sym_bad = {v["obligation"] for v in res["violations"]} | {o["obligation"] for o in res["open"]}
    for o in FB.obligations:
        if o.status in ("violated", "failed-concrete") and o.name not in names_sym_bad and res["paths"] and not res["engine_errors"]:
            res["engine_errors"].append(f"float run violates {o.name} ({o.detail}) but the symbolic run proved it")
    res["float_obligations"] = len(FB.obligations)
    res["stubs"] = sorted(stubset)
    res["assumption_tags"] = sorted(t for t in tags if t)[:40]
    res["solver_time_s"] = round(D.STATS["solver_time"], 3)
    res["queries"] = D.STATS["queries"]
    res["lemmas"] = D.STATS["lemmas"]
    res["unknown"] = D.STATS["unknown"]
    res["cvc5"] = {"queries": D.STATS["cvc5_queries"], "agree": D.STATS["cvc5_agree"], "unknown": D.STATS["cvc5_unknown"], "time_s": round(D.STATS["cvc5_time"], 3)}
    res["wall_s"] = round(time.time() - t0, 3)
    res["inputs"] = {k: _jsonable(v) for k, v in FB.inputs.items()}
    return res


def _phash(ctx):
    import hashlib

    h = hashlib.sha1()
    for rel, taken in ctx.path:
        h.update(repr((rel.kind, rel.p.key(), taken)).encode())
    return h.hexdigest()[:16]


def _jsonable(x):
    if isinstance(x, dict):
        return {str(k): _jsonable(v) for k, v in x.items()}
    if isinstance(x, (list, tuple)):
        return [_jsonable(v) for v in x]
    if isinstance(x, np.ndarray):
        if x.dtype.kind == "c":
            return {"re": np.real(x).tolist(), "im": np.imag(x).tolist()}
        return x.tolist()
    if isinstance(x, (np.floating, np.integer)):
        return x.item()
    if isinstance(x, (str, int, float, bool)) or x is None:
        return x
    return repr(x)
