r"""Deciding obligations: monomial abstraction (QF_LRA) + goal-directed saturation, z3.

 * feasible(ctx, rel)      - is `rel` satisfiable together with assumptions and path (relaxation:
                             'unsat' is sound, anything else counts as feasible)
 * prove(ctx, goals, ...)  - for each goal relation decide `assumptions /\ path => goal`
                             ('proved' is sound for all real values; otherwise 'open')
"""
from __future__ import annotations

import time
from fractions import Fraction

import z3

from .ctx import Assumption, Ctx, EngineError
from .poly import I_VAR, ONE, Poly, mono_degree, mono_divides, mono_has_I, mono_mul

STATS = {"queries": 0, "solver_time": 0.0, "lemmas": 0, "sat_time": 0.0, "unknown": 0}


class Lin:
    """monomial abstraction of a set of polynomial constraints into linear real arithmetic"""

    def __init__(self, ctx: Ctx, timeout_ms=20000):
        self.ctx = ctx
        self.mv = {}
        self.s = z3.SolverFor("QF_LRA")
        self.s.set("timeout", timeout_ms)
        self.nonneg_vars = set()
        self.pos_vars = set()
        self.n_synced = 0
        self.n_path = 0

    # -- encoding ------------------------------------------------------------------
    def _mono_sign(self, m):
        """+1 if the monomial is provably >= 0 from variable-level facts, else 0"""
        for v, e in m:
            if v == I_VAR:
                return 0
            if e % 2 == 0:
                continue
            if v in self.nonneg_vars:
                continue
            return 0
        return 1

    def mvar(self, m):
        x = self.mv.get(m)
        if x is None:
            x = z3.Real("m%d" % len(self.mv))
            self.mv[m] = x
            if self._mono_sign(m) > 0:
                strict = all((v in self.pos_vars) for v, e in m)
                self.s.add(x > 0 if strict else x >= 0)
        return x

    def lin(self, p: Poly):
        if p.has_I():
            raise EngineError("complex polynomial in a real constraint")
        terms = []
        const = Fraction(0)
        for m, c in p.t.items():
            if not m:
                const += c
            else:
                terms.append(z3.Q(c.numerator, c.denominator) * self.mvar(m))
        e = z3.Sum(terms) if terms else z3.RealVal(0)
        if const:
            e = e + z3.Q(const.numerator, const.denominator)
        return e

    def atom(self, kind, p: Poly):
        e = self.lin(p)
        if kind == "eq":
            return e == 0
        if kind == "ne":
            return e != 0
        if kind == "ge":
            return e >= 0
        if kind == "gt":
            return e > 0
        if kind == "le":
            return e <= 0
        if kind == "lt":
            return e < 0
        raise EngineError(kind)

    def note_var_facts(self, a: Assumption):
        # variable-level sign facts   v >= 0 / v > 0
        if a.kind in ("ge", "gt") and len(a.p.t) == 1:
            ((m, c),) = a.p.t.items()
            if len(m) == 1 and m[0][1] == 1 and c > 0:
                self.nonneg_vars.add(m[0][0])
                if a.kind == "gt":
                    self.pos_vars.add(m[0][0])

    def sync(self):
        ctx = self.ctx
        A = ctx.assumptions
        for a in A[self.n_synced:]:
            self.note_var_facts(a)
        for a in A[self.n_synced:]:
            self.s.add(self.atom(a.kind, a.p))
        self.n_synced = len(A)
        pa = ctx.path_assumptions()
        for a in pa[self.n_path:]:
            self.s.add(self.atom(a.kind, a.p))
        self.n_path = len(pa)


def _lin_for(ctx: Ctx) -> Lin:
    L = ctx.caches.get("lin")
    if L is None:
        L = Lin(ctx, timeout_ms=3000)
        ctx.caches["lin"] = L
    return L


def feasible(ctx: Ctx, rel) -> bool:
    """relaxed feasibility of `rel` under assumptions + current path"""
    t0 = time.time()
    L = _lin_for(ctx)
    L.sync()
    L.s.push()
    try:
        L.s.add(L.atom(rel.kind, rel.p))
        # light saturation: products of the new relation with itself are not needed;
        # squares/sign lemmas are added by mvar()
        r = L.s.check()
    finally:
        L.s.pop()
    ctx.stats["feas_queries"] += 1
    dt = time.time() - t0
    ctx.stats["feas_time"] += dt
    STATS["queries"] += 1
    STATS["solver_time"] += dt
    return str(r) != "unsat"


# ---------------------------------------------------------------------------------------


class Goal:
    __slots__ = ("kind", "p", "name", "status", "detail", "witness_resid")

    def __init__(self, kind, p: Poly, name=""):
        self.kind = kind
        self.p = p
        self.name = name
        self.status = None
        self.detail = ""
        self.witness_resid = None


def split_complex(kind, p: Poly, name):
    if p.has_I():
        if kind != "eq":
            raise EngineError("complex inequality")
        return [Goal("eq", p.real(), name + ".re"), Goal("eq", p.imag(), name + ".im")]
    return [Goal(kind, p, name)]


def _mask(m):
    r = 0
    for v, _ in m:
        r |= 1 << v
    return r


def saturate(eqs, targets, rounds=2, maxdeg=6, max_lemmas=40000, ineqs=()):
    """goal-directed saturation.
    eqs: list[Poly] (each == 0); targets: set of monomials.  Returns list of lemma polys (== 0)."""
    by_var = {}
    hmons = []
    for hi, h in enumerate(eqs):
        for v in h.vars():
            by_var.setdefault(v, []).append(hi)
        hmons.append([(m, _mask(m)) for m in h.t if m])
    seen = set()
    lemmas = []
    frontier = set(targets)
    known = set(targets)
    for h in eqs:
        known.update(h.t.keys())
    for rnd in range(rounds):
        nxt = set()
        for t in frontier:
            if not t:
                continue
            mt = _mask(t)
            nmt = ~mt
            cand = set()
            for v, e in t:
                if v != I_VAR:
                    cand.update(by_var.get(v, ()))
            for hi in cand:
                h = eqs[hi]
                for m, mm_ in hmons[hi]:
                    if mm_ & nmt:
                        continue
                    q = mono_divides(m, t)
                    if q is None or not q:
                        continue
                    if q[0][0] == I_VAR:
                        continue
                    k = (hi, q)
                    if k in seen:
                        continue
                    seen.add(k)
                    if mono_degree(q) + h.degree() > maxdeg + 2:
                        continue
                    lem = h.mul_mono(q)
                    if lem.degree() > maxdeg:
                        continue
                    lemmas.append(lem)
                    for mm in lem.t:
                        if mm not in known:
                            known.add(mm)
                            nxt.add(mm)
                    if len(lemmas) >= max_lemmas:
                        return lemmas
        frontier = nxt
        if not frontier:
            break
    return lemmas


def prove(ctx: Ctx, goals, rounds=2, maxdeg=6, timeout_ms=20000, extra=(), products=False):
    """decide every goal; sets goal.status in {'proved','open'}"""
    t0 = time.time()
    eqs = [a.p for a in ctx.assumptions if a.kind == "eq"]
    pa = ctx.path_assumptions()
    eqs += [a.p for a in pa if a.kind == "eq"]
    eqs += [a.p for a in extra if a.kind == "eq"]
    eqs = [h for h in eqs if not h.has_I()]
    ineq = [a for a in list(ctx.assumptions) + pa + list(extra) if a.kind != "eq"]

    glist = []
    for g in goals:
        glist.append(g)
    # trivial goals first
    todo = []
    for g in glist:
        if g.p.is_const():
            c = g.p.const_value()
            ok = {"eq": c == 0, "ge": c >= 0, "gt": c > 0, "ne": c != 0, "le": c <= 0, "lt": c < 0}[g.kind]
            g.status = "proved" if ok else "open"
            g.detail = "syntactic" if ok else "constant goal false"
        else:
            todo.append(g)
    if not todo:
        return glist
    targets = set()
    for g in todo:
        targets.update(g.p.t.keys())
    # the degree bound is relative to the goals: multipliers may raise the degree by `maxdeg - 4` at most
    maxdeg = max(g.p.degree() for g in todo) + max(2, maxdeg - 4)
    lemmas = saturate(eqs, targets, rounds=rounds, maxdeg=maxdeg)
    prod_lemmas = []
    if products:
        # products of pairs of non-negative facts (for ordering goals)
        nn = [a.p for a in ineq if a.kind in ("ge", "gt")]
        nn = nn[:40]
        for i in range(len(nn)):
            for j in range(i, len(nn)):
                pr = nn[i] * nn[j]
                if pr.degree() <= maxdeg:
                    prod_lemmas.append(pr)
        # second saturation round for the monomials the products introduced
        t2 = set()
        for pr in prod_lemmas:
            t2.update(pr.t.keys())
        lemmas += saturate(eqs, t2 - targets, rounds=1, maxdeg=maxdeg)
    STATS["lemmas"] += len(lemmas)

    L = Lin(ctx, timeout_ms=timeout_ms)
    for a in list(ctx.assumptions) + pa + list(extra):
        L.note_var_facts(a)
    for h in eqs:
        L.s.add(L.atom("eq", h))
    for a in ineq:
        if a.p.has_I():
            continue
        L.s.add(L.atom(a.kind, a.p))
    for lem in lemmas:
        L.s.add(L.atom("eq", lem))
    for pr in prod_lemmas:
        L.s.add(L.atom("ge", pr))
    neg = {"eq": "ne", "ge": "lt", "gt": "le", "le": "gt", "lt": "ge", "ne": "eq"}
    for g in todo:
        L.s.push()
        L.s.add(L.atom(neg[g.kind], g.p))
        t1 = time.time()
        r = str(L.s.check())
        dt = time.time() - t1
        STATS["queries"] += 1
        STATS["solver_time"] += dt
        L.s.pop()
        if r == "unsat":
            g.status = "proved"
            g.detail = f"LIN unsat ({len(lemmas)} lemmas, {len(L.mv)} atoms, {dt:.2f}s)"
        else:
            if r == "unknown":
                STATS["unknown"] += 1
            g.status = "open"
            g.detail = f"LIN {r} ({len(lemmas)} lemmas, {len(L.mv)} atoms)"
    return glist


def smt2_sample(ctx: Ctx, g: Goal, max_assumptions=6) -> str:
    """a human-readable rendering of one obligation"""
    nm = ctx.name_of
    lines = []
    for a in ctx.assumptions[:max_assumptions]:
        lines.append(f"(assume {a.kind} [{a.tag}] {a.p.fmt(nm, 6)})")
    if len(ctx.assumptions) > max_assumptions:
        lines.append(f"... {len(ctx.assumptions) - max_assumptions} more assumptions")
    for d in ctx.describe_path()[:4]:
        lines.append(f"(path {d})")
    lines.append(f"(goal {g.name}: {g.p.fmt(nm, 8)} {g.kind} 0)")
    return "\n".join(lines)
