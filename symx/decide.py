r"""Deciding obligations: monomial abstraction (QF_LRA) + goal-directed saturation, z3.

 * feasible(ctx, rel)      - is `rel` satisfiable together with assumptions and path (relaxation:
                             'unsat' is sound, anything else counts as feasible)
 * prove(ctx, goals, ...)  - for each goal relation decide `assumptions /\ path => goal`
                             ('proved' is sound for all real values; otherwise 'open')
"""
from __future__ import annotations

import time
from fractions import Fraction

import z3

from .ctx import Assumption, Ctx, EngineError
from .poly import I_VAR, ONE, Poly, mono_degree, mono_divides, mono_has_I, mono_mul

STATS = {"queries": 0, "solver_time": 0.0, "lemmas": 0, "sat_time": 0.0, "unknown": 0}


class Lin:
    """monomial abstraction of a set of polynomial constraints into linear real arithmetic"""

    def __init__(self, ctx: Ctx, timeout_ms=20000):
        self.ctx = ctx
        self.mv = {}
        self.s = z3.SolverFor("QF_LRA")
        self.s.set("timeout", timeout_ms)
        self.nonneg_vars = set()
        self.pos_vars = set()
        self.n_synced = 0
        self.n_path = 0

    # -- encoding ------------------------------------------------------------------
    def _mono_sign(self, m):
        """+1 if the monomial is provably >= 0 from variable-level facts, else 0"""
        for v, e in m:
            if v == I_VAR:
                return 0
            if e % 2 == 0:
                continue
            if v in self.nonneg_vars:
                continue
            return 0
        return 1

    def mvar(self, m):
        x = self.mv.get(m)
        if x is None:
            x = z3.Real("m%d" % len(self.mv))
            self.mv[m] = x
            if self._mono_sign(m) > 0:
                strict = all((v in self.pos_vars) for v, e in m)
                self.s.add(x > 0 if strict else x >= 0)
        return x

    def lin(self, p: Poly):
        if p.has_I():
            raise EngineError("complex polynomial in a real constraint")
        terms = []
        const = Fraction(0)
        for m, c in p.t.items():
            if not m:
                const += c
            else:
                terms.append(z3.Q(c.numerator, c.denominator) * self.mvar(m))
        e = (terms[0] if len(terms) == 1 else z3.Sum(terms)) if terms else z3.RealVal(0)  # no unary (+ t): cvc5 rejects it
        if const:
            e = e + z3.Q(const.numerator, const.denominator)
        return e

    def atom(self, kind, p: Poly):
        e = self.lin(p)
        if kind == "eq":
            return e == 0
        if kind == "ne":
            return e != 0
        if kind == "ge":
            return e >= 0
        if kind == "gt":
            return e > 0
        if kind == "le":
            return e <= 0
        if kind == "lt":
            return e < 0
        raise EngineError(kind)

    def note_var_facts(self, a: Assumption):
        # variable-level sign facts   v >= 0 / v > 0
        if a.kind in ("ge", "gt") and len(a.p.t) == 1:
            ((m, c),) = a.p.t.items()
            if len(m) == 1 and m[0][1] == 1 and c > 0:
                self.nonneg_vars.add(m[0][0])
                if a.kind == "gt":
                    self.pos_vars.add(m[0][0])

    def sync(self):
        ctx = self.ctx
        A = ctx.assumptions
        for a in A[self.n_synced:]:
            self.note_var_facts(a)
        for a in A[self.n_synced:]:
            self.s.add(self.atom(a.kind, a.p))
        self.n_synced = len(A)
        pa = ctx.path_assumptions()
        for a in pa[self.n_path:]:
            self.s.add(self.atom(a.kind, a.p))
        self.n_path = len(pa)


def _lin_for(ctx: Ctx) -> Lin:
    L = ctx.caches.get("lin")
    if L is None:
        L = Lin(ctx, timeout_ms=3000)
        ctx.caches["lin"] = L
    return L


def feasible(ctx: Ctx, rel) -> bool:
    """relaxed feasibility of `rel` under assumptions + current path"""
    t0 = time.time()
    L = _lin_for(ctx)
    L.sync()
    L.s.push()
    try:
        L.s.add(L.atom(rel.kind, rel.p))
        # light saturation: products of the new relation with itself are not needed;
        # squares/sign lemmas are added by mvar()
        r = L.s.check()
        if str(r) == "unsat":
            # an infeasibility verdict prunes a path: it carries the same weight as a proof, so it gets the second opinion too
            q0 = ctx.caches.get("cross_checked", 0)
            ctx.caches["cross_checked"] = ctx.caches.get("cross_checked_feas", 0)
            try:
                cross_check(ctx, L.s)
            finally:
                ctx.caches["cross_checked_feas"] = ctx.caches.get("cross_checked", 0)
                ctx.caches["cross_checked"] = q0
    finally:
        L.s.pop()
    ctx.stats["feas_queries"] += 1
    dt = time.time() - t0
    ctx.stats["feas_time"] += dt
    STATS["queries"] += 1
    STATS["solver_time"] += dt
    return str(r) != "unsat"


# ---------------------------------------------------------------------------------------


class Goal:
    __slots__ = ("kind", "p", "name", "status", "detail", "witness_resid")

    def __init__(self, kind, p: Poly, name=""):
        self.kind = kind
        self.p = p
        self.name = name
        self.status = None
        self.detail = ""
        self.witness_resid = None


def split_complex(kind, p: Poly, name):
    if p.has_I():
        if kind != "eq":
            raise EngineError("complex inequality")
        return [Goal("eq", p.real(), name + ".re"), Goal("eq", p.imag(), name + ".im")]
    return [Goal(kind, p, name)]


def _mask(m):
    r = 0
    for v, _ in m:
        r |= 1 << v
    return r


def saturate(eqs, targets, rounds=2, maxdeg=6, max_lemmas=40000, ineqs=(), pairs=None):
    """goal-directed saturation.
    eqs: list[Poly] (each == 0); targets: set of monomials.  Returns list of lemma polys (== 0)."""
    by_var = {}
    hmons = []
    for hi, h in enumerate(eqs):
        for v in h.vars():
            by_var.setdefault(v, []).append(hi)
        hmons.append([(m, _mask(m)) for m in h.t if m])
    seen = set()
    lemmas = []
    frontier = set(targets)
    known = set(targets)
    for h in eqs:
        known.update(h.t.keys())
    t_start = time.time()
    for rnd in range(rounds):
        nxt = set()
        for t in frontier:
            if not t:
                continue
            if time.time() - t_start > 20.0:
                return lemmas
            mt = _mask(t)
            nmt = ~mt
            cand = set()
            for v, e in t:
                if v != I_VAR:
                    cand.update(by_var.get(v, ()))
            for hi in cand:
                h = eqs[hi]
                for m, mm_ in hmons[hi]:
                    if mm_ & nmt:
                        continue
                    q = mono_divides(m, t)
                    if q is None or not q:
                        continue
                    if q[0][0] == I_VAR:
                        continue
                    k = (hi, q)
                    if k in seen:
                        continue
                    seen.add(k)
                    if mono_degree(q) + h.degree() > maxdeg + 2:
                        continue
                    lem = h.mul_mono(q)
                    if lem.degree() > maxdeg:
                        continue
                    lemmas.append(lem)
                    if pairs is not None:
                        pairs.append((hi, q))
                    for mm in lem.t:
                        if mm not in known:
                            known.add(mm)
                            nxt.add(mm)
                    if len(lemmas) >= max_lemmas:
                        return lemmas
        frontier = nxt
        if not frontier:
            break
    return lemmas


def prove(ctx: Ctx, goals, rounds=2, maxdeg=6, timeout_ms=20000, extra=(), products=False, reduction=True, max_lemmas=8000, fallback=True):
    """decide every goal; sets goal.status in {'proved','open'}"""
    t0 = time.time()
    eqs = [a.p for a in ctx.assumptions if a.kind == "eq"]
    pa = ctx.path_assumptions()
    eqs += [a.p for a in pa if a.kind == "eq"]
    eqs += [a.p for a in extra if a.kind == "eq"]
    eqs = [h for h in eqs if not h.has_I()]
    ineq = [a for a in list(ctx.assumptions) + pa + list(extra) if a.kind != "eq"]

    glist = []
    for g in goals:
        glist.append(g)
    # trivial goals first
    todo = []
    for g in glist:
        if g.p.is_const():
            c = g.p.const_value()
            ok = {"eq": c == 0, "ge": c >= 0, "gt": c > 0, "ne": c != 0, "le": c <= 0, "lt": c < 0}[g.kind]
            g.status = "proved" if ok else "open"
            g.detail = "syntactic" if ok else "constant goal false"
        else:
            todo.append(g)
    if not todo:
        return glist
    if reduction:
        prove_eq_by_reduction(ctx, todo, timeout_ms=timeout_ms, extra=extra, rounds=rounds, maxdeg=maxdeg)
        todo = [g for g in todo if g.status != "proved"]
        if not todo:
            return glist
        if not fallback:
            for g in todo:
                g.status = "open"
            return glist
    if ctx.options.get("deadline") and time.time() > ctx.options["deadline"]:
        for g in todo:
            g.status = "open"
            g.detail = g.detail or "time budget of the configuration exhausted"
        return glist
    targets = set()
    for g in todo:
        targets.update(g.p.t.keys())
    # the degree bound is relative to the goals: multipliers may raise the degree by `maxdeg - 4` at most
    maxdeg = max(g.p.degree() for g in todo) + max(2, maxdeg - 4)
    lemmas = saturate(eqs, targets, rounds=rounds, maxdeg=maxdeg, max_lemmas=max_lemmas)
    prod_lemmas = []
    if products:
        # products of pairs of non-negative facts (for ordering goals)
        nn = [a.p for a in ineq if a.kind in ("ge", "gt") and len(a.p.t) <= 3]
        nn = nn[:40]
        for i in range(len(nn)):
            for j in range(i, len(nn)):
                pr = nn[i] * nn[j]
                if pr.degree() <= maxdeg:
                    prod_lemmas.append(pr)
        # second saturation round for the monomials the products introduced
        t2 = set()
        for pr in prod_lemmas:
            t2.update(pr.t.keys())
        lemmas += saturate(eqs, t2 - targets, rounds=1, maxdeg=maxdeg)
    STATS["lemmas"] += len(lemmas)

    size = sum(len(l.t) for l in lemmas)
    if size > ctx.options.get("max_lemma_terms", 30000):
        for g in todo:
            g.status = "open"
            g.detail = g.detail or f"saturation produced {len(lemmas)} lemmas with {size} monomial occurrences - beyond what is handed to the solver"
        return glist
    L = Lin(ctx, timeout_ms=timeout_ms)
    for a in list(ctx.assumptions) + pa + list(extra):
        L.note_var_facts(a)
    for h in eqs:
        L.s.add(L.atom("eq", h))
    for a in ineq:
        if a.p.has_I():
            continue
        L.s.add(L.atom(a.kind, a.p))
    for lem in lemmas:
        L.s.add(L.atom("eq", lem))
    for pr in prod_lemmas:
        L.s.add(L.atom("ge", pr))
    neg = {"eq": "ne", "ge": "lt", "gt": "le", "le": "gt", "lt": "ge", "ne": "eq"}
    for gi, g in enumerate(todo):
        if ctx.options.get("deadline") and time.time() > ctx.options["deadline"]:
            g.status = "open"
            g.detail = g.detail or "time budget of the configuration exhausted"
            continue
        # negated goal under an assumption literal (no push/pop: z3's push internalises every assertion outside the
        # reach of its own timeout, which once blocked a worker for 25 minutes)
        lit = z3.Bool("goal%d" % gi)
        L.s.add(z3.Implies(lit, L.atom(neg[g.kind], g.p)))
        t1 = time.time()
        r = str(L.s.check(lit))
        dt = time.time() - t1
        STATS["queries"] += 1
        STATS["solver_time"] += dt
        xc = "skipped"
        if r == "unsat":
            L.s.push()
            L.s.add(lit)
            xc = cross_check(ctx, L.s)
            L.s.pop()
        if r == "unsat":
            g.status = "proved"
            g.detail = f"LIN unsat ({len(lemmas)} lemmas, {len(L.mv)} atoms, {dt:.2f}s)" + (f"; cvc5: {xc}" if xc != "skipped" else "")
        else:
            if r == "unknown":
                STATS["unknown"] += 1
            g.status = "open"
            g.detail = f"LIN {r} ({len(lemmas)} lemmas, {len(L.mv)} atoms)"
    return glist


def cross_check(ctx: Ctx, solver) -> str:
    """second opinion on an `unsat` verdict: the very query z3 answered (exported as SMT-LIB2) is handed to cvc5.
    Returns 'unsat' (agrees), 'skipped' (quota used up / cvc5 unavailable), 'unknown' (cvc5 gave up within its limit).
    A `sat` answer is an engine error: the two solvers disagree on a QF_LRA query."""
    quota = ctx.options.get("cross_check", 0)
    used = ctx.caches.get("cross_checked", 0)
    if used >= quota:
        return "skipped"
    try:
        import cvc5
    except Exception:  # noqa
        return "skipped"
    ctx.caches["cross_checked"] = used + 1
    txt = solver.to_smt2()
    t1 = time.time()
    slv = cvc5.Solver()
    slv.setOption("tlimit-per", str(int(ctx.options.get("cross_check_ms", 15000))))
    slv.setLogic("QF_LRA")
    par = cvc5.InputParser(slv)
    par.setStringInput(cvc5.InputLanguage.SMT_LIB_2_6, txt, "lin")
    sm = par.getSymbolManager()
    res = "unknown"
    try:
        while True:
            cmd = par.nextCommand()
            if cmd.isNull():
                break
            out = cmd.invoke(slv, sm).strip()
            if out in ("sat", "unsat", "unknown"):
                res = out
            elif out.startswith("(error"):
                res = "unknown"
    except Exception as e:  # noqa - a query cvc5 cannot read is 'not cross-checked', never a verdict
        res = "unknown"
        ctx.notes.append(f"cvc5 could not read an exported query: {str(e)[:80]}") if hasattr(ctx, "notes") else None
    STATS["cvc5_queries"] = STATS.get("cvc5_queries", 0) + 1
    STATS["cvc5_time"] = STATS.get("cvc5_time", 0.0) + time.time() - t1
    if res == "unsat":
        STATS["cvc5_agree"] = STATS.get("cvc5_agree", 0) + 1
    elif res == "sat":
        raise EngineError("solver disagreement: z3 answered unsat, cvc5 answered sat on the same QF_LRA query")
    else:
        STATS["cvc5_unknown"] = STATS.get("cvc5_unknown", 0) + 1
    return res


def smt2_sample(ctx: Ctx, g: Goal, max_assumptions=6) -> str:
    """a human-readable rendering of one obligation"""
    nm = ctx.name_of
    lines = []
    for a in ctx.assumptions[:max_assumptions]:
        lines.append(f"(assume {a.kind} [{a.tag}] {a.p.fmt(nm, 6)})")
    if len(ctx.assumptions) > max_assumptions:
        lines.append(f"... {len(ctx.assumptions) - max_assumptions} more assumptions")
    for d in ctx.describe_path()[:4]:
        lines.append(f"(path {d})")
    lines.append(f"(goal {g.name}: {g.p.fmt(nm, 8)} {g.kind} 0)")
    return "\n".join(lines)


# ---------------------------------------------------------------------------------------
# lemma selection by greedy polynomial reduction
#
# For an equality goal g == 0 the multipliers (q, h) of a certificate  g = sum c * q * h  are searched
# by rewriting g with the assumption equations (each step must shrink the polynomial), unfolding alias
# definitions when stuck.  The search is only a heuristic that SELECTS lemmas; the verdict still comes
# from the solver: the selected products q*h are handed to z3 (QF_LRA over monomials) together with the
# negated goal, and only `unsat` counts as proved.


def _totdeg(p):
    return sum(mono_degree(m) for m in p.t)


class Reducer:
    def __init__(self, ctx: Ctx, extra=()):
        self.ctx = ctx
        self.defs = {}  # alias var index -> (Poly definition, assumption poly)
        self.defs2 = {}  # alias var index -> (factorised form from a stub contract, assumption poly)
        self.sqdefs = {}  # var -> (P, h, rule index) with var^2 == P
        self.defs2_rule = {}  # alias var index -> index of the same contract equation in self.rules
        self.rules = []  # (h_normalised, [(m, mask, coeff)], derivation [Poly])
        self.unit = {}  # var -> assumption poly v^2 - 1   (sign-like variables)
        self.subst = {}  # var -> (replacement var, assumption poly  var - replacement)
        eqs = [a for a in ctx.assumptions if a.kind == "eq"] + [a for a in ctx.path_assumptions() if a.kind == "eq"] + [a for a in extra if a.kind == "eq"]
        rest = []
        for a in eqs:
            h = a.p
            if h.has_I():
                continue
            if len(h.t) == 2 and ONE in h.t:
                (m,) = [mm for mm in h.t if mm]
                if len(m) == 1 and m[0][1] == 2 and h.t[m] == -h.t[ONE]:
                    self.unit[m[0][0]] = h.scale(1 / h.t[m])
                    continue
            if len(h.t) == 2 and ONE not in h.t:
                (m1, c1), (m2, c2) = h.t.items()
                if len(m1) == 1 and len(m2) == 1 and m1[0][1] == 1 and m2[0][1] == 1 and c1 == -c2:
                    # v1 - v2 == 0 : substitute the later variable by the earlier one
                    va, vb = m1[0][0], m2[0][0]
                    hi_, lo_ = (va, vb) if va > vb else (vb, va)
                    if hi_ not in self.subst and lo_ not in self.subst:
                        hp = h.scale(1 / (c1 if va == hi_ else c2))  # coefficient +1 on the substituted variable
                        self.subst[hi_] = (lo_, hp)
                        continue
            rest.append(a)
        for a in rest:
            h = a.p
            if a.tag.startswith("def-alias"):
                done = False
                for m, c in h.t.items():
                    if len(m) == 1 and m[0][1] == 1 and c == 1 and ctx.vars[m[0][0]].name.startswith("al"):
                        self.defs[m[0][0]] = (Poly({mm: -cc for mm, cc in h.t.items() if mm != m}), h)
                        done = True
                        break
                if done:
                    continue
            if "M = U S V^H" in a.tag or "A B = I" in a.tag:
                # a stub contract whose input entry was let-bound: usable as a second definition of that alias
                singles = [(m, c) for m, c in h.t.items() if len(m) == 1 and m[0][1] == 1 and abs(c) == 1 and ctx.vars[m[0][0]].name.startswith("al")]
                if len(singles) == 1 and "M = U S V^H" in a.tag:
                    (m, c), = singles
                    self.defs2[m[0][0]] = (Poly({mm: -cc / c for mm, cc in h.t.items() if mm != m}), h.scale(1 / c))
            hn, der = self.norm_units(h)
            if not hn.t:
                continue
            if a.tag in ("def-abs", "def-root"):
                # v^2 == P : usable as an unfolding of v^2 when the search is stuck
                pref = "a" if a.tag == "def-abs" else "r"
                sq = [(m, c) for m, c in h.t.items() if len(m) == 1 and m[0][1] == 2 and abs(c) == 1 and ctx.vars[m[0][0]].kind == "aux" and ctx.vars[m[0][0]].name.startswith(pref) and m[0][0] not in self.sqdefs]
                if sq:
                    (m, c) = sq[-1]
                    if all(m[0][0] not in [v for v, _ in mm] for mm in h.t if mm != m):
                        self.sqdefs[m[0][0]] = (Poly({mm: -cc / c for mm, cc in h.t.items() if mm != m}), h.scale(1 / c), len(self.rules))
            mons = [(m, _mask(m), c) for m, c in hn.t.items() if m]
            if mons:
                self.rules.append((hn, mons, [h] + der))
                if "M = U S V^H" in a.tag:
                    for m_, c_ in h.t.items():
                        if len(m_) == 1 and m_[0][1] == 1 and abs(c_) == 1 and m_[0][0] in self.defs2:
                            self.defs2_rule.setdefault(m_[0][0], set()).add(len(self.rules) - 1)
        self.by_var = {}
        for ri, (h, mons, der) in enumerate(self.rules):
            for v in h.vars():
                self.by_var.setdefault(v, []).append(ri)

    def norm_units(self, p: Poly):
        """rewrite v^e -> v^(e mod 2) for sign-like variables; returns (p', lemmas) with p' = p - sum(lemmas)"""
        if not self.unit and not self.subst:
            return p, []
        lemmas = []
        changed = True
        while changed:
            changed = False
            for t, c in list(p.t.items()):
                for v, e in t:
                    if v in self.subst and e >= 1:
                        w, hp = self.subst[v]
                        d = dict(t)
                        d[v] = e - 1
                        if d[v] == 0:
                            del d[v]
                        q = tuple(sorted(d.items()))
                        lem = hp.mul_mono(q, c)  # c*q*(v - w)
                        p = p - lem
                        lemmas.append(lem)
                        changed = True
                        break
                    if v in self.unit and (e >= 2 or e <= -1):
                        d = dict(t)
                        if e >= 2:
                            d[v] = e - 2
                        else:
                            d[v] = e  # multiply (v^2 - 1) by v^e: v^(e+2) - v^e
                        if d[v] == 0:
                            del d[v]
                        q = tuple(sorted(d.items()))
                        u = self.unit[v]  # v^2 - 1
                        lem = u.mul_mono(q, c if e >= 2 else -c)
                        p = p - lem
                        lemmas.append(lem)
                        changed = True
                        break
                if changed:
                    break
        return p, lemmas

    def reduce(self, p: Poly, max_steps=4000, max_terms=6000, unfold_levels=5, max_seconds=15.0):
        """-> (remainder, lemmas used [Poly == 0])"""
        used = []
        steps = 0
        t_start = time.time()
        p, l0 = self.norm_units(p)
        used += l0
        tried2 = set()
        disabled = set()  # contract equations already used to unfold an alias must not fold it back
        for level in range(unfold_levels + 1):
            progress = True
            last_rule = None
            while progress and p.t and steps < max_steps:
                progress = False
                if time.time() - t_start > max_seconds:
                    return p, used
                pv = p.vars()
                cand = set()
                for v in pv:
                    cand.update(self.by_var.get(v, ()))
                cand = sorted(c_ for c_ in cand if c_ not in disabled)
                if last_rule is not None and last_rule in cand:
                    cand.remove(last_rule)
                    cand.insert(0, last_rule)
                pm = [(t, _mask(t)) for t in p.t]
                best = None
                for ri in cand:
                    h, mons, der = self.rules[ri]
                    for (m, mk, cm) in mons:
                        for t, mt in pm:
                            if mk & ~mt:
                                continue
                            q = mono_divides(m, t)
                            if q is None:
                                continue
                            if q and q[0][0] == I_VAR:
                                continue
                            c = p.t[t] / cm
                            lem = h.mul_mono(q, c)
                            p2 = p - lem
                            gain = len(p.t) - len(p2.t)
                            if gain == 0 and len(mons) <= 2:
                                dd = _totdeg(p) - _totdeg(p2)
                                gain = 0.5 if dd > 0 else 0
                            if gain > 0 and (best is None or gain > best[0]):
                                best = (gain, p2, q, ri)
                                if gain >= len(mons) - 1:
                                    break
                        if best is not None and best[0] >= len(mons) - 1:
                            break
                    if best is not None and best[0] >= 1:
                        break
                if best is not None:
                    _, p, q, ri = best
                    for d in self.rules[ri][2]:
                        used.append(d.mul_mono(q))
                    p, l1 = self.norm_units(p)
                    used += l1
                    last_rule = ri
                    steps += 1
                    progress = True
            if not p.t:
                break
            al2 = [v for v in p.vars() if v in self.defs2 and v not in tried2]
            al = al2 or [v for v in p.vars() if v in self.defs]
            if not al and level < unfold_levels:
                # unfold squares of abs / root symbols: v^2 -> P
                sqv = [v for v in p.vars() if v in self.sqdefs and any(dict(t).get(v, 0) >= 2 for t in p.t)]
                if sqv:
                    for v in sqv:
                        P, h, ri = self.sqdefs[v]
                        disabled.add(ri)
                        guard = 0
                        changed = True
                        while changed and guard < 4:
                            changed = False
                            guard += 1
                            for t, c in list(p.t.items()):
                                d = dict(t)
                                e = d.get(v, 0)
                                if e < 2:
                                    continue
                                d[v] = e - 2
                                if d[v] == 0:
                                    del d[v]
                                q = tuple(sorted(d.items()))
                                lem = h.mul_mono(q)
                                p = p - lem.scale(c)
                                used.append(lem)
                                changed = True
                                if len(p.t) > max_terms:
                                    return p, used
                    p, l3 = self.norm_units(p)
                    used += l3
                    continue
            if not al or level == unfold_levels:
                break
            for v in al:
                if al2:
                    tried2.add(v)
                    disabled.update(self.defs2_rule.get(v, ()))
                    P, h = self.defs2[v]
                else:
                    P, h = self.defs[v]
                guard = 0
                changed = True
                while changed and guard < 6:
                    changed = False
                    guard += 1
                    for t, c in list(p.t.items()):
                        d = dict(t)
                        e = d.get(v)
                        if e is None or e < 1:
                            continue
                        d[v] = e - 1
                        if d[v] == 0:
                            del d[v]
                        q = tuple(sorted(d.items()))
                        lem = h.mul_mono(q)
                        p = p - lem.scale(c)
                        used.append(lem)
                        changed = True
                        if len(p.t) > max_terms:
                            return p, used
            p, l2 = self.norm_units(p)
            used += l2
        return p, used


def prove_eq_by_reduction(ctx: Ctx, goals, timeout_ms=20000, extra=(), rounds=2, maxdeg=6):
    """try to prove equality goals with reduction-selected lemmas; leaves unproved goals untouched"""
    R = ctx.caches.get("reducer")
    sig = (len(ctx.assumptions), len(ctx.path))
    if R is None or R[0] != sig:
        R = (sig, Reducer(ctx, extra))
        ctx.caches["reducer"] = R
    red = R[1]
    rule_polys = [r[0] for r in red.rules] + list(red.unit.values())
    rule_der = [r[2] for r in red.rules] + [[u] for u in red.unit.values()]
    deadline = ctx.options.get("deadline")
    for g in goals:
        if g.kind != "eq" or g.status == "proved" or g.p.has_I():
            continue
        if deadline and time.time() > deadline:
            g.detail = "time budget of the configuration exhausted before this goal was attempted"
            continue
        rem, used = red.reduce(g.p)
        extra_lemmas = []
        if rem.t:
            if len(rem.t) > 400:
                g.detail = f"reduction stuck with {len(rem.t)} terms after {len(used)} steps"
                continue
            pairs = []
            md = rem.degree() + max(2, maxdeg - 4)
            saturate(rule_polys, set(rem.t.keys()), rounds=rounds, maxdeg=md, max_lemmas=6000, pairs=pairs)
            for hi, q in pairs:
                for d in rule_der[hi]:
                    extra_lemmas.append(d.mul_mono(q))
            # multiplier 1: the (normalised) assumptions that share a monomial with the remainder
            rm = set(rem.t.keys())
            for hi, rp in enumerate(rule_polys):
                if rm & set(rp.t.keys()):
                    extra_lemmas.extend(rule_der[hi])
        L = Lin(ctx, timeout_ms=timeout_ms)
        for lem in used:
            L.s.add(L.atom("eq", lem))
        for lem in extra_lemmas:
            L.s.add(L.atom("eq", lem))
        L.s.add(L.atom("ne", g.p))
        t1 = time.time()
        r = str(L.s.check())
        dt = time.time() - t1
        STATS["queries"] += 1
        STATS["solver_time"] += dt
        STATS["lemmas"] += len(used) + len(extra_lemmas)
        if r == "unsat":
            xc = cross_check(ctx, L.s)
            g.status = "proved"
            g.detail = f"LIN unsat ({len(used)} reduction-selected + {len(extra_lemmas)} saturation lemmas, {len(L.mv)} atoms, {dt:.2f}s)" + (f"; cvc5: {xc}" if xc != "skipped" else "")
        else:
            if r == "unknown":
                STATS["unknown"] += 1
            g.detail = f"reduction left {len(rem.t)} terms; LIN {r} with {len(used)}+{len(extra_lemmas)} lemmas"


def input_model(ctx: Ctx, names, timeout_ms=10000):
    """solver-made witness candidate: a model of the QF_LRA abstraction of (assumptions + path condition), read off at the
    scalar inputs `names`. The abstraction is exact for path conditions that are linear in those inputs (solver policy,
    thresholds); otherwise the candidate simply fails to follow the path when it is executed. -> {name: float} or None"""
    L = Lin(ctx, timeout_ms=timeout_ms)
    allA = list(ctx.assumptions) + ctx.path_assumptions()
    for a in allA:
        L.note_var_facts(a)
    for a in allA:
        if a.p.has_I():
            continue
        L.s.add(L.atom(a.kind, a.p))
    # keep away from the boundaries of the path condition where that is possible (integers get rounded afterwards)
    L.s.push()
    for a in ctx.path_assumptions():
        if a.kind in ("ge", "gt") and not a.p.has_I():
            L.s.add(L.lin(a.p) >= 1)
    r = str(L.s.check())
    if r != "sat":
        L.s.pop()
        r = str(L.s.check())
        if r != "sat":
            return None
    m = L.s.model()
    out = {}
    for idx, vi in enumerate(ctx.vars):
        if vi.kind == "input" and vi.name in names:
            x = L.mv.get(((idx, 1),))
            if x is None:
                continue
            val = m.eval(x, model_completion=True)
            try:
                out[vi.name] = float(val.numerator_as_long()) / float(val.denominator_as_long())
            except Exception:  # noqa
                continue
    return out


def input_model_at_witness(ctx: Ctx, names, timeout_ms=10000):
    """second kind of solver-made witness: every variable EXCEPT the scalar inputs `names` is fixed at its witness value (data,
    stub outputs, aliases), so the path condition becomes a constraint system over the scalar inputs alone - exact wherever the
    non-scalar quantities do not depend on those scalars (thresholds, tolerances, counts). z3 decides it (QF_NRA over a handful of
    variables, usually linear); the model is a candidate like any other: it is executed and replayed. -> {name: float} or None"""
    import z3 as _z3

    idx_of = {vi.name: i for i, vi in enumerate(ctx.vars) if vi.kind == "input" and vi.name in names}
    if not idx_of:
        return None
    zv = {i: _z3.Real(f"w_{n}") for n, i in idx_of.items()}
    s = _z3.Solver()
    s.set("timeout", int(timeout_ms))

    def expr(p):
        tot = _z3.RealVal(0)
        for m, c in p.t.items():
            coef = Fraction(c) if not isinstance(c, Fraction) else c
            num = 1.0
            term = None
            for v, e in m:
                if v == 0:
                    return None  # imaginary unit
                if v in zv:
                    f = zv[v] if e == 1 else zv[v] ** e
                    if e < 0:
                        return None
                    term = f if term is None else term * f
                else:
                    val = ctx.value_of(v)
                    if val is None:
                        return None
                    if isinstance(val, complex):
                        if abs(val.imag) > 1e-300:
                            return None
                        val = val.real
                    num *= float(val) ** e
            if num != num or num in (float("inf"), float("-inf")):
                return None
            k = _z3.RealVal(str(Fraction(num) * coef))
            tot = tot + (k if term is None else k * term)
        return tot

    def mentions(p):
        return any(v in zv for m in p.t for v, _ in m)

    cons = []
    for a in list(ctx.assumptions) + ctx.path_assumptions():
        try:
            if not mentions(a.p):
                continue
            e = expr(a.p)
        except Exception:  # noqa
            e = None
        if e is None:
            continue
        cons.append((a.kind, e))
    if not cons:
        return None
    # stay away from the boundaries of the region (the values are rounded to floats before they are executed): margins tried in turn
    found = False
    for mg in (1e-6, 1e-8, 1e-11, 0.0):
        s.push()
        g = _z3.RealVal(str(Fraction(mg)))
        for kind, e in cons:
            if mg and kind in ("ge", "gt"):
                s.add(e >= g)
            elif mg and kind in ("le", "lt"):
                s.add(e <= -g)
            else:
                s.add({"eq": e == 0, "ne": e != 0, "ge": e >= 0, "gt": e > 0, "le": e <= 0, "lt": e < 0}[kind])
        if str(s.check()) == "sat":
            found = True
            break
        s.pop()
    if not found:
        return None
    m = s.model()
    out = {}
    for n, i in idx_of.items():
        val = m.eval(zv[i], model_completion=True)
        try:
            out[n] = float(Fraction(val.numerator_as_long(), val.denominator_as_long()))
        except Exception:  # noqa - algebraic number
            try:
                out[n] = float(val.approx(20).as_fraction())
            except Exception:  # noqa
                return None
    return out


def consistent(ctx: Ctx, timeout_ms=10000) -> str:
    """vacuity guard: the (abstracted) assumptions and path condition must not be contradictory.
    Returns 'sat' / 'unknown' / 'unsat'."""
    L = Lin(ctx, timeout_ms=timeout_ms)
    allA = list(ctx.assumptions) + ctx.path_assumptions()
    for a in allA:
        L.note_var_facts(a)
    for a in allA:
        if a.p.has_I():
            continue
        L.s.add(L.atom(a.kind, a.p))
    return str(L.s.check())


def witness_contract_residual(ctx: Ctx):
    """largest relative residual of the equality assumptions at the witness valuation (stub contracts evaluated on
    what the REAL routines returned): translation validation of the stubs"""
    worst, tag = 0.0, ""
    for a in ctx.assumptions:
        if a.kind != "eq":
            continue
        try:
            v = ctx.eval(a.p)
        except Exception:
            return None, ""
        v = abs(v)
        mag = 1.0
        for m, c in a.p.t.items():
            x = abs(float(c))
            try:
                for vv, e in m:
                    if vv != 0:
                        x *= abs(ctx.value_of(vv)) ** e
            except Exception:
                return None, ""
            mag = max(mag, x)
        r = v / mag
        if r > worst:
            worst, tag = r, a.tag
    return worst, tag
