"""Execution context of one symbolic run: variables, assumptions, path, witness valuation."""
from __future__ import annotations

import math
import os
from fractions import Fraction

from .poly import Poly


class EngineError(Exception):
    """the engine met something it cannot model - never a property verdict (exit code 3)"""


class PathInfeasible(BaseException):
    """raised inside the code under test when the current decision prefix became infeasible"""


class PathLimit(BaseException):
    pass


class VarInfo:
    __slots__ = ("name", "kind", "value", "origin")

    def __init__(self, name, kind, value, origin):
        self.name = name
        self.kind = kind  # 'input' | 'stub' | 'aux'
        self.value = value  # float witness value (may be None)
        self.origin = origin


class Assumption:
    __slots__ = ("kind", "p", "tag")

    def __init__(self, kind, p, tag=""):
        self.kind = kind  # 'eq' | 'ge' | 'gt' | 'ne'
        self.p = p
        self.tag = tag


class Ctx:
    """one path of one configuration"""

    def __init__(self, plan=(), seed=0, options=None):
        self.vars: list[VarInfo] = [VarInfo("I", "const", None, "imaginary unit")]
        self.assumptions: list[Assumption] = []
        self.path: list[tuple] = []  # (Rel, taken)
        self.plan = list(plan)  # list of bools
        self.pending: list[list[bool]] = []
        self.on_witness = True
        self.caches: dict = {}
        self.stub_log: list = []
        self.seed = seed
        self.options = dict(options or {})
        self.stats = {"feas_queries": 0, "feas_time": 0.0, "forks": 0}
        self.warnings_seen: list = []
        self.notes: list = []
        self.unwitnessed_reason = None
        self.positive_vars = set()
        self.positive_polys = set()
        self.nonneg_vars = set()

    # ---- variables ----------------------------------------------------------------
    def new_var(self, name, kind="aux", value=None, origin="") -> Poly:
        idx = len(self.vars)
        self.vars.append(VarInfo(f"{name}", kind, value, origin))
        return Poly.var(idx)

    def name_of(self, idx: int) -> str:
        return self.vars[idx].name

    def value_of(self, idx: int):
        v = self.vars[idx].value
        if v is None:
            raise EngineError(f"variable {self.vars[idx].name} has no witness value")
        return v

    def eval(self, p: Poly):
        return p.eval(self.value_of)

    def eval_or_none(self, p: Poly):
        try:
            return p.eval(self.value_of)
        except (EngineError, ZeroDivisionError, OverflowError):
            self.on_witness = False
            return None

    def assume(self, kind, p: Poly, tag=""):
        if p.is_const():
            c = p.const_value()
            ok = {"eq": c == 0, "ge": (not isinstance(c, complex)) and c >= 0, "gt": (not isinstance(c, complex)) and c > 0, "ne": c != 0}[kind]
            if not ok:
                # an assumption that is concretely false: the path is contradictory
                raise PathInfeasible(f"assumption {kind} {c} ({tag})")
            return
        if kind == "eq" and p.has_I():
            self.assumptions.append(Assumption("eq", p.real(), tag))
            self.assumptions.append(Assumption("eq", p.imag(), tag))
            return
        if kind == "gt":
            self.positive_polys.add(p.key())
            al = self.caches.get("alias", {}).get(p.key())
            if al is not None and not al.has_I():
                self.assumptions.append(Assumption("gt", al, tag + " (alias)"))
                ((m_, _c),) = al.t.items()
                self.positive_vars.add(m_[0][0])
        if kind in ("ge", "gt") and len(p.t) == 1:
            ((m0, cf0),) = p.t.items()
            if len(m0) == 1 and m0[0][1] == 1 and cf0 > 0:
                self.nonneg_vars.add(m0[0][0])
        if kind == "gt" and len(p.t) == 1:
            ((m, cf),) = p.t.items()
            if len(m) == 1 and m[0][1] == 1 and cf > 0:
                self.positive_vars.add(m[0][0])
        self.assumptions.append(Assumption(kind, p, tag))

    # ---- branching ----------------------------------------------------------------
    def decide(self, rel) -> bool:
        from . import decide as D

        p = rel.p
        if p.is_const():
            return rel.concrete(p.const_value())
        # same relation decided before on this path -> same answer (no fork)
        k = (rel.kind, p.key())
        nk = (rel.negated().kind, p.key())
        for r, taken in self.path:
            rk = (r.kind, r.p.key())
            if rk == k:
                return taken
            if rk == nk:
                return not taken
        i = len(self.path)
        if i < len(self.plan):
            taken = self.plan[i]
            if self.on_witness:
                try:
                    b0 = rel.concrete(self.eval(p))
                except EngineError:
                    b0 = None
                if b0 is not None and b0 != taken:
                    self.on_witness = False
            self.path.append((rel, taken))
            return taken
        limit = self.options.get("max_forks", 40)
        if len(self.path) >= limit:
            raise PathLimit(f"more than {limit} forks on one path")
        self.stats["forks"] += 1
        if self.on_witness:
            b0 = rel.concrete(self.eval(p))
            # the witness side is feasible by construction; is the other side?
            other = D.feasible(self, self._strict(rel if not b0 else rel.negated()))
            if other:
                self.pending.append([t for _, t in self.path] + [not b0])
            self.path.append((rel, b0))
            return b0
        ft = D.feasible(self, self._strict(rel))
        ff = D.feasible(self, self._strict(rel.negated()))
        if ft and ff:
            self.pending.append([t for _, t in self.path] + [False])
            self.path.append((rel, True))
            return True
        if ft or ff:
            self.path.append((rel, ft))
            return ft
        raise PathInfeasible("both sides infeasible")

    def _strict(self, rel):
        """generic position: exact ties between real-valued expressions (a set of measure zero) are not
        explored as paths of their own unless options['ties'] is set - stated in every evidence file"""
        if self.options.get("ties", False):
            return rel
        from .scalars import Rel

        if rel.kind == "ge":
            return Rel("gt", rel.p)
        if rel.kind == "le":
            return Rel("lt", rel.p)
        if rel.kind == "eq":
            return rel
        return rel

    def path_assumptions(self):
        out = []
        for rel, taken in self.path:
            r = rel if taken else rel.negated()
            out.append(Assumption(r.kind, r.p, "path"))
        return out

    def describe_path(self):
        return [((rel if t else rel.negated()).fmt(self.name_of)) for rel, t in self.path]


_CUR: list[Ctx] = []


def cur() -> Ctx:
    if not _CUR:
        raise EngineError("no active symbolic context")
    return _CUR[-1]


def active() -> bool:
    return bool(_CUR)


class use_ctx:
    def __init__(self, ctx):
        self.ctx = ctx

    def __enter__(self):
        _CUR.append(self.ctx)
        return self.ctx

    def __exit__(self, *a):
        _CUR.pop()
        return False
