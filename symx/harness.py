"""Backends and path exploration.

A harness is a function  h(B)  that builds inputs through the backend B, runs the REAL xeofs code on
them and states obligations (B.eq / B.ge / B.check / B.raises).  The same function runs

  * under SymBackend: inputs are symbolic, obligations are decided by the solver on every path;
  * under FloatBackend: inputs are the witness numbers, real numpy/LAPACK, obligations evaluated
    numerically.  This is the replay of a candidate counterexample and the translation-validation
    reference of the engine.
"""
from __future__ import annotations

import hashlib
import json
import math
import time
import traceback
import warnings
from fractions import Fraction

import numpy as np
import xarray as xr

from . import decide as D
from . import stubs
from .array import BOOL, C128, F64, SymArray, isnan_scalar, obj, reported_dtype, sym_array
from .ctx import Ctx, EngineError, PathInfeasible, PathLimit, use_ctx
from .poly import Poly
from .scalars import Rel, Sym, fresh


class Obligation:
    __slots__ = ("name", "kind", "status", "detail", "n_goals", "n_proved", "resid", "sample")

    def __init__(self, name, kind):
        self.name = name
        self.kind = kind
        self.status = None  # proved | open | failed-concrete | violated(float)
        self.detail = ""
        self.n_goals = 0
        self.n_proved = 0
        self.resid = None
        self.sample = None


def _data_of(x):
    if isinstance(x, (xr.DataArray, xr.Variable)):
        return x.data
    return x


def _rng_for(cfg_key, seed):
    h = hashlib.sha256(f"{cfg_key}|{seed}".encode()).digest()
    return np.random.default_rng(int.from_bytes(h[:8], "little"))


class BackendBase:
    sym = False

    def __init__(self, cfg_key, seed):
        self.cfg_key = cfg_key
        self.seed = seed
        self.rng = _rng_for(cfg_key, seed)
        self.obligations: list[Obligation] = []
        self.inputs = {}
        self.functions = set()
        self.notes = []
        self.values = {}  # name -> numeric value of lhs (for translation validation)
        self.override = {}  # scalar input name -> witness value chosen by the solver (see run.py, solver-made witnesses)
        self.scalar_names = []

    def _ov(self, name, v):
        self.scalar_names.append(name)
        if name in self.override:
            return type(v)(round(self.override[name])) if isinstance(v, int) else float(self.override[name])
        return v

    # -- input values (identical stream in both backends) --
    def _draw(self, shape, complex_=False, positive=False, lo=None, hi=None):
        if positive:
            v = self.rng.uniform(0.5 if lo is None else lo, 2.0 if hi is None else hi, size=shape)
        elif lo is not None:
            v = self.rng.uniform(lo, hi, size=shape)
        else:
            v = self.rng.standard_normal(size=shape)
        v = np.round(v, 3)
        if complex_:
            w = np.round(self.rng.standard_normal(size=shape), 3)
            v = v + 1j * w
        return v

    def assume_gt(self, a, b, why=""):
        """configuration assumption a > b (entrywise) - listed in the evidence; checked on the witness in float mode"""
        self.note(f"assumption: {why}")
        if self.sym:
            from .array import obj as _obj

            ao = _obj(_data_of(a))
            bo = np.broadcast_to(_obj(b), ao.shape)
            for idx in np.ndindex(*ao.shape):
                d = Sym.of(ao[idx]) - Sym.of(bo[idx])
                self.ctx.assume("gt", d.p, f"harness assumption: {why}")
        else:
            av = np.asarray(_data_of(a), dtype=float)
            if not np.all(av > np.asarray(b, dtype=float)):
                raise EngineError(f"witness violates the harness assumption {why}")

    def covers(self, *names):
        self.functions.update(names)

    def note(self, s):
        if s not in self.notes:
            self.notes.append(s)

    # structural / concrete obligation
    def check(self, name, cond, detail=""):
        ob = Obligation(name, "check")
        ob.n_goals = 1
        ok = bool(cond)
        ob.n_proved = 1 if ok else 0
        ob.status = "proved" if ok else "failed-concrete"
        ob.detail = detail if not ok else "concrete"
        self.obligations.append(ob)
        return ok

    def raises(self, name, fn, exc=(Exception,)):
        """the call must raise (one of exc) on this path"""
        ob = Obligation(name, "raises")
        ob.n_goals = 1
        try:
            r = fn()
        except (EngineError, PathInfeasible, PathLimit):
            raise
        except exc as e:
            ob.status = "proved"
            ob.n_proved = 1
            ob.detail = f"raised {type(e).__name__}"
        except Exception as e:
            ob.status = "failed-concrete"
            ob.detail = f"raised unexpected {type(e).__name__}: {e}"
        else:
            ob.status = "failed-concrete"
            ob.detail = "returned a result instead of raising"
        self.obligations.append(ob)
        return ob.status == "proved"

    def completes(self, name, fn):
        """the call must not raise; returns its result or None"""
        ob = Obligation(name, "completes")
        ob.n_goals = 1
        try:
            r = fn()
        except (EngineError, PathInfeasible, PathLimit):
            raise
        except Exception as e:
            ob.status = "failed-concrete"
            tb = traceback.extract_tb(e.__traceback__)
            where = ""
            for fr in reversed(tb):
                if "/xeofs/" in fr.filename:
                    where = f" at {fr.filename.split('/xeofs/')[-1]}:{fr.lineno}"
                    break
            ob.detail = f"raised {type(e).__name__}: {str(e)[:160]}{where}"
            self.obligations.append(ob)
            return None
        ob.status = "proved"
        ob.n_proved = 1
        ob.detail = "completed"
        self.obligations.append(ob)
        return r

    # -- structure comparison of two xarray objects; returns aligned data pairs --
    def _align(self, name, a, b, ignore_order=False):
        """returns list of (label, a_data, b_data) or None when the structure differs"""
        if isinstance(a, xr.Dataset) or isinstance(b, xr.Dataset):
            if not (isinstance(a, xr.Dataset) and isinstance(b, xr.Dataset)):
                self.check(name + ":type", False, f"{type(a).__name__} vs {type(b).__name__}")
                return None
            if set(a.data_vars) != set(b.data_vars):
                self.check(name + ":vars", False, f"{sorted(map(str, a.data_vars))} vs {sorted(map(str, b.data_vars))}")
                return None
            out = []
            for v in a.data_vars:
                r = self._align(f"{name}[{v}]", a[v], b[v], ignore_order)
                if r is None:
                    return None
                out += r
            return out
        if isinstance(a, (list, tuple)) or isinstance(b, (list, tuple)):
            if not (isinstance(a, (list, tuple)) and isinstance(b, (list, tuple))) or len(a) != len(b):
                self.check(name + ":list", False, "list structure differs")
                return None
            out = []
            for i, (x, y) in enumerate(zip(a, b)):
                r = self._align(f"{name}[{i}]", x, y, ignore_order)
                if r is None:
                    return None
                out += r
            return out
        if isinstance(a, xr.DataArray) and isinstance(b, xr.DataArray):
            if set(a.dims) != set(b.dims):
                self.check(name + ":dims", False, f"dims {a.dims} vs {b.dims}")
                return None
            b = b.transpose(*a.dims)
            for d in a.dims:
                if a.sizes[d] != b.sizes[d]:
                    self.check(name + ":shape", False, f"size of {d}: {a.sizes[d]} vs {b.sizes[d]}")
                    return None
                if d in a.coords and d in b.coords:
                    ia, ib = a.indexes[d], b.indexes[d]
                    if not ia.equals(ib):
                        if ignore_order and len(ia) == len(ib) and set(ia) == set(ib) and ia.is_unique:
                            b = b.sel({d: a[d].values})
                        else:
                            self.check(name + ":coords", False, f"coordinate {d}: {list(ia)[:6]} vs {list(ib)[:6]}")
                            return None
                elif (d in a.coords) != (d in b.coords):
                    self.check(name + ":coords", False, f"coordinate {d} present on one side only")
                    return None
            return [(name, a.data, b.data)]
        return [(name, _data_of(a), _data_of(b))]


# =======================================================================================


class FloatBackend(BackendBase):
    sym = False

    def __init__(self, cfg_key, seed, rtol=1e-8, tier="quick"):
        super().__init__(cfg_key, seed)
        self.rtol = rtol
        self.tier = tier

    def array(self, shape, name, complex_=False, positive=False, lo=None, hi=None, nan_mask=None):
        v = self._draw(shape, complex_, positive, lo, hi)
        if nan_mask is not None:
            v = v.copy()
            v[nan_mask] = np.nan
        self.inputs[name] = v
        return v

    def scalar(self, name, positive=False, lo=None, hi=None, nonzero=False):
        v = float(self._draw((), False, positive, lo, hi))
        if nonzero and v == 0:
            v = 0.5
        v = self._ov(name, v)
        self.inputs[name] = v
        return v

    def const(self, v):
        return v

    def alias(self, a):
        return _data_of(a)

    def let(self, a, tag="harness"):
        return _data_of(a)

    def sym_float(self, name, lo, hi):
        v = self._ov(name, float(self._draw((), lo=lo, hi=hi)))
        self.inputs[name] = v
        return v

    def sym_int(self, name, lo, hi):
        v = self._ov(name, int(self.rng.integers(lo, hi + 1)))
        self.inputs[name] = v
        return v

    def _cmp(self, name, kind, a, b, ignore_order=False, scale=None):
        ob = Obligation(name, kind)
        pairs = self._align(name, a, b, ignore_order)
        if pairs is None:
            ob.status = "failed-concrete"
            ob.detail = "structure differs"
            ob.n_goals = 1
            self.obligations.append(ob)
            return False
        worst = 0.0
        ok = True
        vals = []
        for label, x, y in pairs:
            x = np.asarray(x)
            y = np.asarray(y)
            try:
                x, y = np.broadcast_arrays(x, y)
            except ValueError:
                ok = False
                ob.detail = f"shape {x.shape} vs {y.shape}"
                continue
            ob.n_goals += int(x.size)
            vals.append(np.array(x, dtype=complex).ravel())
            nx, ny = np.isnan(x), np.isnan(y)
            if (nx != ny).any():
                ok = False
                ob.detail = f"NaN positions differ in {label}"
                continue
            m = ~nx
            if not m.any():
                continue
            sc = max(1.0, float(np.max(np.abs(x[m]))), float(np.max(np.abs(y[m])))) if scale is None else scale
            if kind == "eq":
                d = float(np.max(np.abs(x[m] - y[m]))) / sc
                worst = max(worst, d)
                if d > self.rtol:
                    ok = False
                    ob.detail = f"max rel diff {d:.3e} in {label}"
            elif kind == "ge":
                d = float(np.max((np.real(y[m]) - np.real(x[m])))) / sc
                worst = max(worst, d)
                if d > self.rtol:
                    ok = False
                    ob.detail = f"lhs < rhs by {d:.3e} in {label}"
        ob.resid = worst
        ob.status = "proved" if ok else "violated"
        ob.n_proved = ob.n_goals if ok else 0
        self.values[name] = np.concatenate(vals) if vals else np.zeros(0)
        self.obligations.append(ob)
        return ok

    @staticmethod
    def _scale_of(kw):
        """natural magnitude of an obligation whose two sides may both be ~0 (a residual): product of the max-abs of the given arrays"""
        arrs = kw.get("scale_of")
        if not arrs:
            return None
        sc = 1.0
        for a_ in arrs:
            v = np.asarray(_data_of(a_))
            v = v[~np.isnan(v)] if v.size else v
            sc *= float(np.max(np.abs(v))) if v.size else 1.0
        return max(sc, 1e-300)

    def eq(self, name, a, b, ignore_order=False, **kw):
        return self._cmp(name, "eq", a, b, ignore_order, scale=self._scale_of(kw))

    def ge(self, name, a, b, **kw):
        return self._cmp(name, "ge", a, b, scale=self._scale_of(kw))

    def zero(self, name, a, **kw):
        return self._cmp(name, "eq", a, np.zeros(np.shape(_data_of(a))) if not isinstance(a, (xr.DataArray, xr.Dataset, list)) else a * 0)

    def value(self, x):
        return np.asarray(_data_of(x))


# =======================================================================================


class SymBackend(BackendBase):
    sym = True

    def __init__(self, ctx: Ctx, cfg_key, seed, tier="quick"):
        super().__init__(cfg_key, seed)
        self.ctx = ctx
        self.tier = tier
        self.pending_goals = []  # (Obligation, [Goal])
        self.refuted = set()  # obligations already refuted (and replayed) on another path of this configuration

    def array(self, shape, name, complex_=False, positive=False, lo=None, hi=None, nan_mask=None):
        v = self._draw(shape, complex_, positive, lo, hi)
        self.inputs[name] = v
        a = sym_array(shape, name, complex_, v, kind="input")
        if positive:
            for x in a.a.flat:
                self.ctx.assume("gt", x.p, f"input {name} > 0")
        elif lo is not None:
            for x in a.a.flat:
                self.ctx.assume("ge", (x - lo).p, f"input {name} >= {lo}")
                self.ctx.assume("ge", (hi - x).p, f"input {name} <= {hi}")
        if nan_mask is not None:
            a.a[nan_mask] = float("nan")
        return a

    def scalar(self, name, positive=False, lo=None, hi=None, nonzero=False):
        v = float(self._draw((), False, positive, lo, hi))
        if nonzero and v == 0:
            v = 0.5
        v = self._ov(name, v)
        self.inputs[name] = v
        x = fresh(name, "input", v)
        if positive:
            self.ctx.assume("gt", x.p, f"input {name} > 0")
        elif lo is not None:
            self.ctx.assume("ge", (x - lo).p, f"{name} >= {lo}")
            self.ctx.assume("ge", (hi - x).p, f"{name} <= {hi}")
        if nonzero:
            self.ctx.assume("ne", x.p, f"input {name} != 0")
        return x

    def const(self, v):
        return v

    def let(self, a, tag="harness"):
        """let-binding: every entry that is not a single symbol / constant is replaced by a fresh name with the defining
        equation name == entry as an assumption (nothing is lost; keeps iterated maps from expanding)"""
        return stubs.alias_entries(_data_of(a), f"let ({tag})", limit=1)

    def alias(self, a):
        """replace entries by the alias variables the engine already introduced for identical polynomials
        (e.g. the entries of a matrix that was handed to a stub)"""
        from .array import SymArray as _SA, obj as _obj, reported_dtype as _rd

        ao = _obj(_data_of(a))
        cache = self.ctx.caches.get("alias", {})
        out = np.empty(ao.shape, dtype=object)
        for idx in np.ndindex(*ao.shape):
            v = ao[idx]
            if isinstance(v, Sym) and v.p.key() in cache:
                out[idx] = Sym(cache[v.p.key()])
            else:
                out[idx] = v
        return _SA(out, _rd(_data_of(a)))

    def sym_float(self, name, lo, hi):
        """a float parameter (passes isinstance(x, float)) that is symbolic in [lo, hi]"""
        from .scalars import SymFloat

        v = self._ov(name, float(self._draw((), lo=lo, hi=hi)))
        self.inputs[name] = v
        x = fresh(name, "input", v)
        self.ctx.assume("ge", (x - lo).p, f"{name} >= {lo}")
        self.ctx.assume("ge", (hi - x).p, f"{name} <= {hi}")
        return SymFloat(v, x)

    def sym_int(self, name, lo, hi):
        from .scalars import SymInt

        v = self._ov(name, int(self.rng.integers(lo, hi + 1)))
        self.inputs[name] = v
        x = fresh(name, "input", float(v))
        self.ctx.assume("ge", (x - lo).p, f"{name} >= {lo}")
        self.ctx.assume("ge", (hi - x).p, f"{name} <= {hi}")
        return SymInt(v, x)

    def _cmp(self, name, kind, a, b, ignore_order=False, rounds=None, maxdeg=None, products=False):
        ob = Obligation(name, kind)
        pairs = self._align(name, a, b, ignore_order)
        if pairs is None:
            ob.status = "failed-concrete"
            ob.detail = "structure differs"
            ob.n_goals = 1
            self.obligations.append(ob)
            return
        goals = []
        concrete_fail = None
        for label, x, y in pairs:
            xo, yo = obj(x) if not isinstance(x, np.ndarray) or x.dtype == object else x.astype(object), obj(y)
            try:
                xo, yo = np.broadcast_arrays(xo, yo)
            except ValueError:
                concrete_fail = f"shape {xo.shape} vs {yo.shape}"
                continue
            for idx in np.ndindex(*xo.shape):
                u, v = xo[idx], yo[idx]
                nu, nv = isnan_scalar(u), isnan_scalar(v)
                if nu or nv:
                    ob.n_goals += 1
                    if nu and nv:
                        ob.n_proved += 1
                    else:
                        concrete_fail = f"NaN on one side only at {label}{list(idx)}"
                    continue
                if isinstance(u, Rel) or isinstance(v, Rel):
                    raise EngineError("relation inside an equality obligation")
                d = Sym.of(u) - Sym.of(v)
                gs = D.split_complex(kind, d.p, f"{label}{list(idx)}")
                goals += gs
                ob.n_goals += len(gs)
        if concrete_fail:
            ob.status = "failed-concrete"
            ob.detail = concrete_fail
        self.obligations.append(ob)
        self.pending_goals.append((ob, goals, {"rounds": rounds, "maxdeg": maxdeg, "products": products}))

    def eq(self, name, a, b, ignore_order=False, **kw):
        kw.pop("scale_of", None)  # only meaningful for the float replay
        self._cmp(name, "eq", a, b, ignore_order, **kw)

    def ge(self, name, a, b, **kw):
        kw.pop("scale_of", None)
        self._cmp(name, "ge", a, b, **kw)

    def value(self, x):
        return stubs.witness(_data_of(x))

    # -- decide everything that was stated on this path --
    def _residuals(self, goals):
        ctx = self.ctx
        worst = 0.0
        if not ctx.on_witness:
            return None
        for g in goals:
            try:
                val = ctx.eval(g.p)
            except (EngineError, ZeroDivisionError, OverflowError):
                return None
            val = val.real if isinstance(val, complex) else val
            try:
                mag = max(1.0, max((abs(float(c)) * abs(_mono_val(ctx, m)) for m, c in g.p.t.items()), default=1.0))
            except (EngineError, ZeroDivisionError, OverflowError):
                return None
            if g.kind == "eq":
                res = abs(val) / mag
            elif g.kind in ("ge", "gt"):
                res = max(0.0, -val) / mag
            else:
                res = max(0.0, val) / mag
            g.witness_resid = res
            worst = max(worst, res)
        return worst

    def discharge(self, rounds=2, maxdeg=6, timeout_ms=20000):
        ctx = self.ctx
        for ob, goals, opt in self.pending_goals:
            if not goals:
                if ob.status is None:
                    ob.status = "proved"
                continue
            r = opt["rounds"] or rounds
            md = opt["maxdeg"] or maxdeg
            # cheap first: a goal that is false at the witness needs no saturation effort
            worst = self._residuals(goals)
            if worst is not None and worst > 1e-7:
                D.prove(ctx, goals, rounds=1, maxdeg=md, timeout_ms=timeout_ms, products=False)
            else:
                D.prove(ctx, goals, rounds=r, maxdeg=md, timeout_ms=timeout_ms, products=opt["products"])
            npv = sum(1 for g in goals if g.status == "proved")
            open_goals = [g for g in goals if g.status != "proved"]
            refuted_elsewhere = ob.name in self.refuted
            extra = 0
            while open_goals and (worst is None or worst <= 1e-7) and not refuted_elsewhere and extra < (2 if ctx.on_witness else 1):
                # more saturation rounds with a larger degree bound before giving up
                extra += 1
                D.prove(ctx, open_goals, rounds=r + extra, maxdeg=md + 2 * extra, timeout_ms=timeout_ms, products=opt["products"])
                npv += sum(1 for g in open_goals if g.status == "proved")
                open_goals = [g for g in open_goals if g.status != "proved"]
            ob.n_proved += npv
            if ob.sample is None and goals:
                ob.sample = D.smt2_sample(ctx, goals[0])
            if open_goals:
                worst = self._residuals(open_goals)
                ob.resid = worst
            if ob.status == "failed-concrete":
                continue
            if not open_goals:
                ob.status = "proved"
                ob.detail = goals[0].detail
            else:
                ob.status = "open"
                g0 = max(open_goals, key=lambda g: g.witness_resid or 0)
                ob.detail = f"{len(open_goals)}/{len(goals)} goals open; e.g. {g0.name}: {g0.detail}; witness residual {('%.2e' % worst) if worst is not None else 'n/a'}"
        self.pending_goals = []


def _mono_val(ctx, m):
    x = 1.0
    for v, e in m:
        if v == 0:
            continue
        x *= abs(ctx.value_of(v)) ** e
    return x
