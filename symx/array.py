"""SymArray: a numpy duck array (reported dtype float64 / complex128 / bool) of symbolic scalars.

xarray treats it like any other duck array, so xeofs' stack / unstack / reindex / concat / dot /
apply_ufunc code runs unmodified.  NaN entries are always concrete float NaN.
"""
from __future__ import annotations

import itertools
import math
import numbers
import operator
from fractions import Fraction

import numpy as np
from numpy.lib.mixins import NDArrayOperatorsMixin

from .ctx import EngineError, cur
from .poly import Poly
from .scalars import Rel, Sym, SymFloat, SymInt, lift, sym_abs, _is_nan, _is_cnan

F64 = np.dtype("float64")
C128 = np.dtype("complex128")
BOOL = np.dtype("bool")

UFUNCS = {}
FUNCS = {}


def implements_ufunc(*ufs):
    def deco(f):
        for u in ufs:
            UFUNCS[u] = f
        return f

    return deco


def implements(*fs):
    def deco(f):
        for u in fs:
            FUNCS[u] = f
        return f

    return deco


def isnan_scalar(x) -> bool:
    if isinstance(x, Sym):
        return False
    if isinstance(x, (float, np.floating)):
        return x != x
    if isinstance(x, (complex, np.complexfloating)):
        return x.real != x.real or x.imag != x.imag
    return False


_v_isnan = np.frompyfunc(isnan_scalar, 1, 1)


def obj(x) -> np.ndarray:
    """anything array-like -> object ndarray (SymArray unwrapped)"""
    if isinstance(x, SymArray):
        return x.a
    if isinstance(x, np.ndarray):
        return x if x.dtype == object else x.astype(object)
    if isinstance(x, (Sym, Rel)):
        r = np.empty((), dtype=object)
        r[()] = x
        return r
    if isinstance(x, (SymFloat, SymInt)):
        r = np.empty((), dtype=object)
        r[()] = x.sym
        return r
    return np.asarray(x).astype(object)


def reported_dtype(x):
    if isinstance(x, SymArray):
        return x.dtype
    if isinstance(x, np.ndarray):
        return x.dtype
    if isinstance(x, Sym):
        return C128 if x.is_complex() else F64
    if isinstance(x, Rel):
        return BOOL
    if isinstance(x, (bool, np.bool_)):
        return BOOL
    if isinstance(x, numbers.Integral):
        return np.dtype("int64")
    if isinstance(x, numbers.Real):
        return F64
    if isinstance(x, numbers.Complex):
        return C128
    try:
        return np.asarray(x).dtype
    except Exception:
        return F64


def _content_dtype(a: np.ndarray, hint=None):
    has_rel = False
    has_cplx = False
    all_bool = a.size > 0
    for x in a.flat:
        if isinstance(x, Rel):
            has_rel = True
        elif isinstance(x, (bool, np.bool_)):
            pass
        else:
            all_bool = False
            if isinstance(x, Sym):
                if x.p.has_I():
                    has_cplx = True
            elif isinstance(x, (complex, np.complexfloating)):
                has_cplx = True
    if has_rel or all_bool:
        if all_bool or has_rel:
            # mixture of Rel and numbers cannot occur
            return BOOL
    if hint is not None and np.dtype(hint).kind == "c":
        return C128
    return C128 if has_cplx else F64


def wrap(r, dtype=None):
    """object ndarray -> SymArray (or a concrete ndarray when nothing symbolic is inside)"""
    if isinstance(r, SymArray):
        return r
    if isinstance(r, np.ndarray):
        if r.dtype != object:
            return r
        if dtype is None:
            dtype = _content_dtype(r)
        dtype = np.dtype(dtype)
        if dtype == BOOL:
            if not any(isinstance(x, Rel) for x in r.flat):
                return r.astype(bool)
            return SymArray(r, BOOL)
        if dtype.kind in "iu":
            if all(not isinstance(x, Sym) for x in r.flat):
                return r.astype(dtype)
            dtype = F64
        if dtype.kind not in "fc":
            dtype = F64
        return SymArray(r, F64 if dtype.kind == "f" else C128)
    if isinstance(r, (Sym, Rel)):
        return r
    return r


def wrap_scalar_or_array(r, dtype=None):
    if isinstance(r, np.ndarray):
        return wrap(r, dtype)
    # numpy reductions over object arrays return bare python objects
    a = np.empty((), dtype=object)
    a[()] = r
    return wrap(a, dtype)


def _out_dtype_ufunc(ufunc, inputs):
    try:
        dummies = []
        for x in inputs:
            dt = reported_dtype(x)
            if dt == object:
                dt = F64
            if isinstance(x, (SymArray, np.ndarray)):
                dummies.append(np.ones((1,) * max(1, getattr(x, "ndim", 1)), dtype=dt)[(0,) * (max(1, getattr(x, "ndim", 1)) - 1)])
            else:
                dummies.append(dt.type(1))
        with np.errstate(all="ignore"):
            return np.asarray(ufunc(*dummies)).dtype
    except Exception:
        return None


class SymArray(NDArrayOperatorsMixin):
    __array_priority__ = 100

    def __init__(self, a, dtype=F64):
        if isinstance(a, SymArray):
            a = a.a
        if not isinstance(a, np.ndarray) or a.dtype != object:
            a = np.asarray(a).astype(object)
        self.a = a
        self._dtype = np.dtype(dtype)

    # ---- array protocol attributes ----
    @property
    def dtype(self):
        return self._dtype

    @property
    def shape(self):
        return self.a.shape

    @property
    def ndim(self):
        return self.a.ndim

    @property
    def size(self):
        return self.a.size

    @property
    def itemsize(self):
        return self._dtype.itemsize

    @property
    def nbytes(self):
        return self.a.size * self._dtype.itemsize

    def __len__(self):
        return len(self.a)

    def __iter__(self):
        for i in range(len(self.a)):
            yield self[i]

    def __repr__(self):
        return f"SymArray(shape={self.shape}, dtype={self._dtype})"

    def __array__(self, dtype=None, copy=None):
        # concretisation is only allowed when nothing symbolic is left inside
        out = np.empty(self.a.shape, dtype=self._dtype if dtype is None else dtype)
        for idx in np.ndindex(*self.a.shape):
            x = self.a[idx]
            if isinstance(x, Sym):
                if not x.is_const():
                    raise EngineError("a symbolic array was converted to a concrete numpy array (np.asarray / .values)")
                x = x.const()
                if not isinstance(x, complex):
                    x = float(x)
            elif isinstance(x, Rel):
                x = bool(x)
            out[idx] = x
        return out

    # ---- indexing ----
    @staticmethod
    def _key(key):
        if isinstance(key, tuple):
            return tuple(SymArray._key(k) for k in key)
        if isinstance(key, SymArray):
            if key.dtype == BOOL:
                return key.concretise_bool()
            raise EngineError("symbolic array used as index")
        return key

    def __getitem__(self, key):
        r = self.a[self._key(key)]
        if isinstance(r, np.ndarray):
            return SymArray(r, self._dtype)
        out = np.empty((), dtype=object)
        out[()] = r
        return SymArray(out, self._dtype)

    def __setitem__(self, key, value):
        key = self._key(key)
        if isinstance(value, SymArray):
            if value.dtype.kind == "c" and self._dtype.kind != "c":
                raise EngineError("complex values assigned into a real array")
            value = value.a
        elif isinstance(value, np.ndarray):
            value = value.astype(object)
        self.a[key] = value

    def item(self, *args):
        x = self.a.item(*args)
        if isinstance(x, Sym) and x.is_const():
            c = x.const()
            return c if isinstance(c, complex) else float(c)
        return x

    def tolist(self):
        return self.a.tolist()

    def concretise_bool(self) -> np.ndarray:
        out = np.empty(self.a.shape, dtype=bool)
        for idx in np.ndindex(*self.a.shape):
            out[idx] = bool(self.a[idx])
        return out

    def __bool__(self):
        if self.a.size != 1:
            raise ValueError("The truth value of an array with more than one element is ambiguous.")
        return bool(self.a.flat[0])

    def __float__(self):
        if self.a.size != 1:
            raise TypeError("only size-1 arrays can be converted")
        return float(self.a.flat[0])

    def __int__(self):
        return int(self.a.flat[0])

    def __complex__(self):
        return complex(self.a.flat[0])

    def __index__(self):
        raise EngineError("symbolic array used as an index")

    def __format__(self, spec):
        if self.a.size == 1:
            return format(self.a.flat[0], spec)
        return repr(self)

    # ---- shape manipulation ----
    def astype(self, dtype, order="K", casting="unsafe", subok=True, copy=True):
        dtype = np.dtype(dtype)
        if dtype == object:
            return self.a.copy() if copy else self.a
        if dtype.kind == "f":
            if self._dtype.kind == "c":
                return SymArray(_map(lambda x: x.real if isinstance(x, Sym) else (x.real if not isnan_scalar(x) else float("nan")), self.a), F64)
            if self._dtype == BOOL:
                return SymArray(_map(lambda x: Sym.of(1) if bool(x) else Sym.of(0), self.a), F64)
            return SymArray(self.a.copy() if copy else self.a, F64)
        if dtype.kind == "c":
            return SymArray(self.a.copy() if copy else self.a, C128)
        if dtype == BOOL:
            if self._dtype == BOOL:
                return SymArray(self.a.copy(), BOOL)
            return wrap(_map(lambda x: (x != 0) if isinstance(x, Sym) else bool(x), self.a), BOOL)
        if dtype.kind in "iu":
            return np.asarray(self).astype(dtype)
        raise EngineError(f"astype({dtype})")

    def copy(self, order="C"):
        return SymArray(self.a.copy(), self._dtype)

    def __copy__(self):
        return self.copy()

    def __deepcopy__(self, memo):
        return self.copy()

    def reshape(self, *shape, **kw):
        if len(shape) == 1 and isinstance(shape[0], (tuple, list)):
            shape = tuple(shape[0])
        return SymArray(self.a.reshape(shape), self._dtype)

    def transpose(self, *axes):
        if len(axes) == 1 and (axes[0] is None or isinstance(axes[0], (tuple, list))):
            axes = axes[0]
        if not axes:
            return SymArray(self.a.transpose(), self._dtype)
        return SymArray(self.a.transpose(tuple(axes)), self._dtype)

    @property
    def T(self):
        return SymArray(self.a.T, self._dtype)

    def squeeze(self, axis=None):
        return SymArray(self.a.squeeze(axis), self._dtype)

    def ravel(self, order="C"):
        return SymArray(self.a.ravel(order), self._dtype)

    def flatten(self, order="C"):
        return SymArray(self.a.flatten(order), self._dtype)

    def swapaxes(self, a, b):
        return SymArray(self.a.swapaxes(a, b), self._dtype)

    def take(self, indices, axis=None, **kw):
        return SymArray(self.a.take(indices, axis=axis), self._dtype)

    def repeat(self, repeats, axis=None):
        return SymArray(self.a.repeat(repeats, axis), self._dtype)

    def fill(self, v):
        self.a.fill(v)

    # ---- elementwise ----
    def conj(self):
        return np.conjugate(self)

    conjugate = conj

    @property
    def real(self):
        return SymArray(_map(lambda x: x.real if isinstance(x, Sym) else (float("nan") if isnan_scalar(x) else np.real(x)), self.a), F64)

    @property
    def imag(self):
        return SymArray(_map(lambda x: x.imag if isinstance(x, Sym) else (float("nan") if isnan_scalar(x) else np.imag(x)), self.a), F64)

    def clip(self, min=None, max=None, out=None, **kw):
        return np.clip(self, min, max)

    def round(self, decimals=0, out=None):
        raise EngineError("round() of a symbolic array")

    # ---- reductions (delegate to numpy functions -> handlers) ----
    def sum(self, axis=None, dtype=None, out=None, keepdims=False, **kw):
        return np.sum(self, axis=axis, keepdims=keepdims)

    def mean(self, axis=None, dtype=None, out=None, keepdims=False, **kw):
        return np.mean(self, axis=axis, keepdims=keepdims)

    def var(self, axis=None, dtype=None, out=None, ddof=0, keepdims=False, **kw):
        return np.var(self, axis=axis, ddof=ddof, keepdims=keepdims)

    def std(self, axis=None, dtype=None, out=None, ddof=0, keepdims=False, **kw):
        return np.std(self, axis=axis, ddof=ddof, keepdims=keepdims)

    def max(self, axis=None, out=None, keepdims=False, **kw):
        return np.max(self, axis=axis, keepdims=keepdims)

    def min(self, axis=None, out=None, keepdims=False, **kw):
        return np.min(self, axis=axis, keepdims=keepdims)

    def argmax(self, axis=None, out=None, **kw):
        return np.argmax(self, axis=axis)

    def argmin(self, axis=None, out=None, **kw):
        return np.argmin(self, axis=axis)

    def cumsum(self, axis=None, dtype=None, out=None):
        return np.cumsum(self, axis=axis)

    def prod(self, axis=None, **kw):
        return np.prod(self, axis=axis)

    def any(self, axis=None, out=None, keepdims=False, **kw):
        return np.any(self, axis=axis, keepdims=keepdims)

    def all(self, axis=None, out=None, keepdims=False, **kw):
        return np.all(self, axis=axis, keepdims=keepdims)

    def dot(self, other):
        return np.dot(self, other)

    def trace(self, *a, **k):
        return np.trace(self, *a, **k)

    def diagonal(self, *a, **k):
        return SymArray(self.a.diagonal(*a, **k), self._dtype)

    def argsort(self, axis=-1, **kw):
        return np.argsort(self, axis=axis)

    # ---- protocols ----
    def __array_ufunc__(self, ufunc, method, *inputs, **kwargs):
        out = kwargs.pop("out", None)
        if method == "__call__":
            h = UFUNCS.get(ufunc)
            kwargs.pop("casting", None)
            kwargs.pop("dtype", None)
            where = kwargs.pop("where", True)
            if where is not True:
                raise EngineError(f"ufunc {ufunc.__name__} with where=")
            if h is not None:
                res = h(*inputs, **kwargs)
            else:
                odt = _out_dtype_ufunc(ufunc, inputs)
                ins = [obj(x) if isinstance(x, (SymArray, np.ndarray, list, tuple)) else x for x in inputs]
                try:
                    r = ufunc(*ins, **kwargs)
                except TypeError as e:
                    raise EngineError(f"ufunc {ufunc.__name__} has no object loop: {e}")
                if isinstance(r, tuple):
                    res = tuple(wrap_scalar_or_array(x) for x in r)
                else:
                    res = wrap_scalar_or_array(r, odt)
        elif method == "reduce":
            res = _ufunc_reduce(ufunc, *inputs, **kwargs)
        elif method == "outer":
            ins = [obj(x) for x in inputs]
            res = wrap_scalar_or_array(ufunc.outer(*ins, **kwargs))
        elif method == "accumulate":
            ins = [obj(x) for x in inputs]
            res = wrap_scalar_or_array(ufunc.accumulate(*ins, **kwargs), reported_dtype(inputs[0]))
        else:
            raise EngineError(f"ufunc method {method}")
        if out is not None:
            (o,) = out if isinstance(out, tuple) else (out,)
            if isinstance(o, SymArray):
                o.a[...] = obj(res)
                return o
            raise EngineError("ufunc out= into a concrete array")
        return res

    def __array_function__(self, func, types, args, kwargs):
        h = FUNCS.get(func)
        if h is not None:
            return h(*args, **kwargs)
        mod = getattr(func, "__module__", "") or ""
        if func.__name__ in _GENERIC_OK:
            a2 = _deep_unwrap(args)
            k2 = _deep_unwrap(kwargs)
            hint = _first_dtype(args)
            r = func(*a2, **k2)
            return _deep_wrap(r, hint)
        raise EngineError(f"numpy function {mod}.{func.__name__} has no symbolic handler")


_GENERIC_OK = {
    "transpose", "expand_dims", "broadcast_to", "moveaxis", "reshape", "squeeze", "take", "stack", "concatenate",
    "vstack", "hstack", "flip", "roll", "atleast_1d", "atleast_2d", "swapaxes", "ravel", "tile", "repeat", "diag",
    "diagonal", "broadcast_arrays", "split", "array_split", "rollaxis", "column_stack", "dstack", "triu", "tril",
    "flipud", "fliplr", "take_along_axis", "delete", "insert", "append", "rot90", "block",
}


def _first_dtype(args):
    for a in _iter_leaves(args):
        if isinstance(a, SymArray):
            return a.dtype
    return None


def _iter_leaves(x):
    if isinstance(x, (list, tuple)):
        for y in x:
            yield from _iter_leaves(y)
    elif isinstance(x, dict):
        for y in x.values():
            yield from _iter_leaves(y)
    else:
        yield x


def _deep_unwrap(x):
    if isinstance(x, SymArray):
        return x.a
    if isinstance(x, list):
        return [_deep_unwrap(y) for y in x]
    if isinstance(x, tuple):
        return tuple(_deep_unwrap(y) for y in x)
    if isinstance(x, dict):
        return {k: _deep_unwrap(v) for k, v in x.items()}
    return x


def _deep_wrap(r, hint=None):
    if isinstance(r, np.ndarray):
        if r.dtype == object:
            return wrap(r, _content_dtype(r, hint))
        return r
    if isinstance(r, list):
        return [_deep_wrap(y, hint) for y in r]
    if isinstance(r, tuple):
        return tuple(_deep_wrap(y, hint) for y in r)
    return r


def _map(f, a: np.ndarray) -> np.ndarray:
    out = np.empty(a.shape, dtype=object)
    for idx in np.ndindex(*a.shape):
        out[idx] = f(a[idx])
    return out


def _map2(f, a, b):
    a, b = np.broadcast_arrays(obj(a), obj(b))
    out = np.empty(a.shape, dtype=object)
    for idx in np.ndindex(*a.shape):
        out[idx] = f(a[idx], b[idx])
    return out


def as_sym_entry(x):
    """normalise an entry: Sym | float nan"""
    if isinstance(x, Sym):
        return x
    if isnan_scalar(x):
        return float("nan")
    return Sym.of(x)


# =======================================================================================
# ufunc handlers


@implements_ufunc(np.isnan)
def _isnan(x, **kw):
    a = obj(x)
    return _v_isnan(a).astype(bool)


@implements_ufunc(np.isfinite)
def _isfinite(x, **kw):
    return ~_isnan(x)


@implements_ufunc(np.isinf)
def _isinf(x, **kw):
    return np.zeros(obj(x).shape, dtype=bool)


def _el_sqrt(x):
    if isinstance(x, Sym):
        return x.sqrt()
    if isnan_scalar(x):
        return float("nan")
    return Sym.of(x).sqrt()


@implements_ufunc(np.sqrt)
def _sqrt(x, **kw):
    return wrap(_map(_el_sqrt, obj(x)), reported_dtype(x))


def _el_abs(x):
    if isinstance(x, Sym):
        return sym_abs(x)
    if isnan_scalar(x):
        return float("nan")
    return abs(x)


@implements_ufunc(np.absolute, np.fabs)
def _abs(x, **kw):
    return wrap(_map(_el_abs, obj(x)), F64)


def _el_conj(x):
    if isinstance(x, Sym):
        return x.conjugate()
    if isnan_scalar(x):
        return x
    return np.conjugate(x)


@implements_ufunc(np.conjugate)
def _conj(x, **kw):
    return wrap(_map(_el_conj, obj(x)), reported_dtype(x))


@implements_ufunc(np.sign)
def _sign(x, **kw):
    def f(v):
        if isnan_scalar(v):
            return v
        if isinstance(v, Sym):
            if v.is_complex():
                raise EngineError("sign of a complex symbol")
            if bool(v > 0):
                return Sym.of(1)
            if bool(v < 0):
                return Sym.of(-1)
            return Sym.of(0)
        return np.sign(v)

    return wrap(_map(f, obj(x)), reported_dtype(x))


def _cmp_handler(op):
    def h(x, y, **kw):
        def f(a, b):
            if isnan_scalar(a) or isnan_scalar(b):
                return op is operator.ne
            r = op(a, b)
            return r

        return wrap(_map2(f, x, y), BOOL)

    return h


for _u, _o in [(np.greater, operator.gt), (np.greater_equal, operator.ge), (np.less, operator.lt), (np.less_equal, operator.le), (np.equal, operator.eq), (np.not_equal, operator.ne)]:
    UFUNCS[_u] = _cmp_handler(_o)


def _el_max(a, b):
    if isnan_scalar(a) or isnan_scalar(b):
        return float("nan")
    r = a >= b
    return a if bool(r) else b


def _el_min(a, b):
    if isnan_scalar(a) or isnan_scalar(b):
        return float("nan")
    r = a <= b
    return a if bool(r) else b


@implements_ufunc(np.maximum)
def _maximum(x, y, **kw):
    return wrap(_map2(_el_max, x, y), np.result_type(reported_dtype(x), reported_dtype(y)))


@implements_ufunc(np.minimum)
def _minimum(x, y, **kw):
    return wrap(_map2(_el_min, x, y), np.result_type(reported_dtype(x), reported_dtype(y)))


@implements_ufunc(np.logical_not)
def _lnot(x, **kw):
    return wrap(_map(lambda v: v.negated() if isinstance(v, Rel) else (not bool(v)), obj(x)), BOOL)


@implements_ufunc(np.invert)
def _invert(x, **kw):
    if reported_dtype(x) != BOOL:
        raise EngineError("bitwise invert of non-bool")
    return _lnot(x)


@implements_ufunc(np.logical_and, np.bitwise_and)
def _land(x, y, **kw):
    return wrap(_map2(lambda a, b: bool(a) and bool(b), x, y), BOOL)


@implements_ufunc(np.logical_or, np.bitwise_or)
def _lor(x, y, **kw):
    return wrap(_map2(lambda a, b: bool(a) or bool(b), x, y), BOOL)


def _unsupported_ufunc(name):
    def h(*a, **k):
        from .stubs import uninterpreted

        return uninterpreted(name, *a)

    return h


for _u in (np.log, np.exp, np.cos, np.sin, np.arctan2, np.log10, np.log2, np.tan, np.arccos, np.arcsin, np.arctan, np.floor, np.ceil, np.rint, np.trunc):
    UFUNCS[_u] = _unsupported_ufunc(_u.__name__)


def _ufunc_reduce(ufunc, x, axis=0, dtype=None, out=None, keepdims=False, initial=None, where=True, **kw):
    if where is not True:
        raise EngineError("reduce with where=")
    if ufunc is np.add:
        return _sum(x, axis=axis, keepdims=keepdims)
    if ufunc is np.multiply:
        a = obj(x)
        return wrap_scalar_or_array(np.multiply.reduce(a, axis=axis, keepdims=keepdims), reported_dtype(x))
    if ufunc is np.maximum:
        return _max(x, axis=axis, keepdims=keepdims)
    if ufunc is np.minimum:
        return _min(x, axis=axis, keepdims=keepdims)
    if ufunc in (np.logical_or, np.bitwise_or):
        return _any(x, axis=axis, keepdims=keepdims)
    if ufunc in (np.logical_and, np.bitwise_and):
        return _all(x, axis=axis, keepdims=keepdims)
    raise EngineError(f"reduce of ufunc {ufunc.__name__}")


# =======================================================================================
# function handlers


def _norm_axis(axis, ndim):
    if axis is None:
        return tuple(range(ndim))
    if isinstance(axis, (int, np.integer)):
        axis = (int(axis),)
    return tuple(a % ndim for a in axis)


def _reduce_generic(x, axis, keepdims, f, dtype=None):
    """apply f(list of entries) over the reduced axes"""
    a = obj(x)
    if a.ndim == 0:
        r = np.empty((), dtype=object)
        r[()] = f([a[()]])
        return wrap(r, dtype or reported_dtype(x))
    ax = _norm_axis(axis, a.ndim)
    keep = [i for i in range(a.ndim) if i not in ax]
    moved = np.transpose(a, keep + list(ax))
    kshape = tuple(a.shape[i] for i in keep)
    flat = moved.reshape(kshape + (-1,)) if kshape else moved.reshape((-1,))
    out = np.empty(kshape, dtype=object)
    if kshape:
        for idx in np.ndindex(*kshape):
            out[idx] = f(list(flat[idx]))
    else:
        out[()] = f(list(flat))
    if keepdims:
        shp = tuple(1 if i in ax else a.shape[i] for i in range(a.ndim))
        out = out.reshape(shp)
    return wrap(out, dtype or reported_dtype(x))


def _s_sum(vals):
    tot = Sym.of(0)
    for v in vals:
        if isnan_scalar(v):
            return float("nan")
        if isinstance(v, Rel):
            v = 1 if bool(v) else 0
        tot = tot + v
    return tot


def _s_nansum(vals):
    tot = Sym.of(0)
    for v in vals:
        if isnan_scalar(v):
            continue
        tot = tot + v
    return tot


@implements(np.sum)
def _sum(x, axis=None, dtype=None, out=None, keepdims=False, **kw):
    dt = reported_dtype(x)
    if dt == BOOL:
        a = x.concretise_bool() if isinstance(x, SymArray) else np.asarray(x)
        return np.sum(a, axis=axis, keepdims=keepdims)
    return _reduce_generic(x, axis, keepdims, _s_sum)


@implements(np.nansum)
def _nansum(x, axis=None, dtype=None, out=None, keepdims=False, **kw):
    return _reduce_generic(x, axis, keepdims, _s_nansum)


def _s_mean(vals):
    if not vals:
        return float("nan")
    s = _s_sum(vals)
    if isnan_scalar(s):
        return s
    return s / len(vals)


def _s_nanmean(vals):
    vv = [v for v in vals if not isnan_scalar(v)]
    if not vv:
        return float("nan")
    return _s_sum(vv) / len(vv)


@implements(np.mean)
def _mean(x, axis=None, dtype=None, out=None, keepdims=False, **kw):
    return _reduce_generic(x, axis, keepdims, _s_mean)


@implements(np.nanmean)
def _nanmean(x, axis=None, dtype=None, out=None, keepdims=False, **kw):
    return _reduce_generic(x, axis, keepdims, _s_nanmean)


def _mk_var(ddof, nan, root):
    def f(vals):
        if nan:
            vals = [v for v in vals if not isnan_scalar(v)]
        elif any(isnan_scalar(v) for v in vals):
            return float("nan")
        n = len(vals)
        if n - ddof <= 0:
            return float("nan")
        m = _s_sum(vals) / n
        tot = Sym.of(0)
        for v in vals:
            d = Sym.of(v) - m
            tot = tot + (d * d.conjugate()).real
        r = tot / (n - ddof)
        if root:
            r = r.sqrt()
        return r

    return f


@implements(np.var)
def _var(x, axis=None, dtype=None, out=None, ddof=0, keepdims=False, **kw):
    return _reduce_generic(x, axis, keepdims, _mk_var(ddof, False, False), F64)


@implements(np.nanvar)
def _nanvar(x, axis=None, dtype=None, out=None, ddof=0, keepdims=False, **kw):
    return _reduce_generic(x, axis, keepdims, _mk_var(ddof, True, False), F64)


@implements(np.std)
def _std(x, axis=None, dtype=None, out=None, ddof=0, keepdims=False, **kw):
    return _reduce_generic(x, axis, keepdims, _mk_var(ddof, False, True), F64)


@implements(np.nanstd)
def _nanstd(x, axis=None, dtype=None, out=None, ddof=0, keepdims=False, **kw):
    return _reduce_generic(x, axis, keepdims, _mk_var(ddof, True, True), F64)


def _extreme(vals, which, nan):
    """max / min of symbolic values"""
    if nan:
        vals = [v for v in vals if not isnan_scalar(v)]
        if not vals:
            return float("nan")
    elif any(isnan_scalar(v) for v in vals):
        return float("nan")
    vals = [Sym.of(v) for v in vals]
    if len(vals) == 1:
        return vals[0]
    if all(v.is_const() for v in vals):
        cs = [v.const() for v in vals]
        return Sym.of(max(cs) if which == "max" else min(cs))
    c = cur()
    mode = c.options.get("extreme", "fresh")
    if any(v.is_complex() for v in vals):
        # numpy orders complex numbers lexicographically (real part first); exact ties of the
        # real parts are outside generic position
        best = vals[0]
        for v in vals[1:]:
            r = (v.real > best.real) if which == "max" else (v.real < best.real)
            if bool(r):
                best = v
        return best
    if mode == "fork":
        best = vals[0]
        for v in vals[1:]:
            r = (v > best) if which == "max" else (v < best)
            if bool(r):
                best = v
        return best
    cache = c.caches.setdefault("extreme", {})
    k = (which, tuple(sorted((v.p.key() for v in vals), key=repr)))  # max/min are symmetric in their arguments
    if k not in cache:
        xs = [c.eval_or_none(v.p) for v in vals]
        if any(z is None for z in xs):
            val = None
        else:
            xs = [z.real if isinstance(z, complex) else z for z in xs]
            val = max(xs) if which == "max" else min(xs)
        m = c.new_var(f"{which}{len(c.vars)}", "aux", val, f"{which} of {len(vals)} values")
        prod = None
        for v in vals:
            d = (m - v.p) if which == "max" else (v.p - m)
            c.assume("ge", d, f"def-{which}")
            prod = d if prod is None else prod * d
        if len(vals) <= 4:
            c.assume("eq", prod, f"def-{which}-attained")
        cache[k] = m
    return Sym(cache[k])


@implements(np.max, np.amax)
def _max(x, axis=None, out=None, keepdims=False, **kw):
    return _reduce_generic(x, axis, keepdims, lambda v: _extreme(v, "max", False))


@implements(np.min, np.amin)
def _min(x, axis=None, out=None, keepdims=False, **kw):
    return _reduce_generic(x, axis, keepdims, lambda v: _extreme(v, "min", False))


@implements(np.nanmax)
def _nanmax(x, axis=None, out=None, keepdims=False, **kw):
    return _reduce_generic(x, axis, keepdims, lambda v: _extreme(v, "max", True))


@implements(np.nanmin)
def _nanmin(x, axis=None, out=None, keepdims=False, **kw):
    return _reduce_generic(x, axis, keepdims, lambda v: _extreme(v, "min", True))


def _argext(x, axis, which, nan):
    a = obj(x)
    if axis is None:
        a = a.reshape(-1)
        axis = 0
    axis = axis % a.ndim
    moved = np.moveaxis(a, axis, -1)
    out = np.empty(moved.shape[:-1], dtype=np.intp)
    for idx in np.ndindex(*moved.shape[:-1]):
        vals = list(moved[idx])
        best = None
        for i, v in enumerate(vals):
            if isnan_scalar(v):
                if nan:
                    continue
                best = i
                break
            if best is None:
                best = i
                continue
            r = (v > vals[best]) if which == "max" else (v < vals[best])
            if bool(r):
                best = i
        if best is None:
            raise ValueError("All-NaN slice encountered")
        out[idx] = best
    return out


@implements(np.argmax)
def _argmax(x, axis=None, out=None, **kw):
    return _argext(x, axis, "max", False)


@implements(np.argmin)
def _argmin(x, axis=None, out=None, **kw):
    return _argext(x, axis, "min", False)


@implements(np.nanargmax)
def _nanargmax(x, axis=None, out=None, **kw):
    return _argext(x, axis, "max", True)


@implements(np.nanargmin)
def _nanargmin(x, axis=None, out=None, **kw):
    return _argext(x, axis, "min", True)


@implements(np.argsort)
def _argsort(x, axis=-1, kind=None, order=None, **kw):
    a = obj(x)
    if axis is None:
        a = a.reshape(-1)
        axis = 0
    axis = axis % a.ndim
    moved = np.moveaxis(a, axis, -1)
    out = np.empty(moved.shape, dtype=np.intp)
    for idx in np.ndindex(*moved.shape[:-1]):
        vals = list(moved[idx])
        order_ = []
        for i, v in enumerate(vals):  # insertion sort, stable, ascending; NaN last
            pos = len(order_)
            for j, o in enumerate(order_):
                if isnan_scalar(vals[o]):
                    pos = j
                    break
                if isnan_scalar(v):
                    continue
                if bool(v < vals[o]):
                    pos = j
                    break
            order_.insert(pos, i)
        out[idx] = order_
    return np.moveaxis(out, -1, axis)


@implements(np.sort)
def _sort(x, axis=-1, **kw):
    idx = _argsort(x, axis=axis)
    return wrap(np.take_along_axis(obj(x), idx, axis=axis), reported_dtype(x))


@implements(np.cumsum)
def _cumsum(x, axis=None, dtype=None, out=None):
    a = obj(x)
    if axis is None:
        a = a.reshape(-1)
        axis = 0
    r = np.empty(a.shape, dtype=object)
    moved = np.moveaxis(a, axis, -1)
    rm = np.moveaxis(r, axis, -1)
    for idx in np.ndindex(*moved.shape[:-1]):
        tot = Sym.of(0)
        for j in range(moved.shape[-1]):
            tot = tot + moved[idx + (j,)]
            rm[idx + (j,)] = tot
    return wrap(r, reported_dtype(x))


@implements(np.nancumsum)
def _nancumsum(x, axis=None, dtype=None, out=None):
    a = _map(lambda v: Sym.of(0) if isnan_scalar(v) else v, obj(x))
    return _cumsum(SymArray(a, reported_dtype(x)), axis=axis)


@implements(np.prod)
def _prod(x, axis=None, dtype=None, out=None, keepdims=False, **kw):
    def f(vals):
        t = Sym.of(1)
        for v in vals:
            t = t * v
        return t

    return _reduce_generic(x, axis, keepdims, f)


@implements(np.any)
def _any(x, axis=None, out=None, keepdims=False, **kw):
    if isinstance(x, SymArray) and x.dtype != BOOL:
        x = x.astype(bool)
    a = x.concretise_bool() if isinstance(x, SymArray) else np.asarray(x)
    return np.any(a, axis=axis, keepdims=keepdims)


@implements(np.all)
def _all(x, axis=None, out=None, keepdims=False, **kw):
    if isinstance(x, SymArray) and x.dtype != BOOL:
        x = x.astype(bool)
    a = x.concretise_bool() if isinstance(x, SymArray) else np.asarray(x)
    return np.all(a, axis=axis, keepdims=keepdims)


@implements(np.count_nonzero)
def _count_nonzero(x, axis=None, **kw):
    a = x.astype(bool)
    a = a.concretise_bool() if isinstance(a, SymArray) else a
    return np.count_nonzero(a, axis=axis, **kw)


def _where_ite(cond, x, y):
    """np.where(symbolic comparison, const, const) without forking: a fresh r per entry with
    (r - x)(r - y) = 0 and  p * (2t - 1) >= 0  where t = (r - y)/(x - y) and the condition is p >= 0"""
    c = cur()
    co = cond.a
    xo, yo = np.broadcast_to(obj(x), co.shape), np.broadcast_to(obj(y), co.shape)
    out = np.empty(co.shape, dtype=object)
    for idx in np.ndindex(*co.shape):
        r = co[idx]
        xv, yv = Sym.of(xo[idx]), Sym.of(yo[idx])
        if not isinstance(r, Rel):
            out[idx] = xv if bool(r) else yv
            continue
        if r.kind not in ("ge", "gt", "le", "lt") or not (xv.is_const() and yv.is_const()) or xv.const() == yv.const():
            out[idx] = xv if bool(r) else yv
            continue
        p = r.p if r.kind in ("ge", "gt") else -r.p
        cache = c.caches.setdefault("ite", {})
        ck = (r.kind, r.p.key(), xv.p.key(), yv.p.key())
        if ck not in cache:
            ev = c.eval_or_none(r.p)
            val = None if ev is None else (float(xv.const()) if r.concrete(ev) else float(yv.const()))
            v = c.new_var(f"ite{len(c.vars)}", "aux", val, f"where({r.fmt(c.name_of)[:60]}, {xv}, {yv})")
            c.assume("eq", (v - xv.p) * (v - yv.p), "ite: value is one of the two branches")
            t = (v - yv.p) * Poly.const(1 / (xv.const() - yv.const()))
            c.assume("ge", p * (t.scale(2) - Poly.const(1)), "ite: branch agrees with the sign of the condition")
            cache[ck] = v
        out[idx] = Sym(cache[ck])
    return SymArray(out, F64)


@implements(np.where)
def _where(cond, x=None, y=None):
    if isinstance(cond, SymArray) and cond.dtype == BOOL and x is not None and y is not None and cur().options.get("ite_merge", True):
        if not isinstance(x, SymArray) and not isinstance(y, SymArray):
            return _where_ite(cond, x, y)
    if isinstance(cond, SymArray):
        cond = cond.concretise_bool() if cond.dtype == BOOL else cond.astype(bool)
        if isinstance(cond, SymArray):
            cond = cond.concretise_bool()
    if x is None and y is None:
        return np.where(cond)
    dt = np.result_type(*[reported_dtype(v) for v in (x, y) if not np.isscalar(v) or True])
    xo = obj(x)
    yo = obj(y)
    r = np.where(np.asarray(cond), xo, yo)
    return wrap(r, dt if dt.kind in "fc" else None)


@implements(np.clip)
def _clip(x, a_min=None, a_max=None, out=None, *, min=None, max=None, **kw):
    lo = a_min if a_min is not None else min
    hi = a_max if a_max is not None else max
    r = x
    if lo is not None:
        r = np.maximum(r, lo)
    if hi is not None:
        r = np.minimum(r, hi)
    return r


@implements(np.real)
def _real(x):
    return x.real


@implements(np.imag)
def _imag(x):
    return x.imag


@implements(np.iscomplexobj)
def _iscomplexobj(x):
    return reported_dtype(x).kind == "c"


@implements(np.isrealobj)
def _isrealobj(x):
    return reported_dtype(x).kind != "c"


@implements(np.iscomplex)
def _iscomplex(x):
    raise EngineError("np.iscomplex on symbolic data")


@implements(np.result_type)
def _result_type(*args):
    return np.result_type(*[reported_dtype(a) if isinstance(a, SymArray) else a for a in args])


@implements(np.can_cast)
def _can_cast(from_, to, casting="safe"):
    return np.can_cast(reported_dtype(from_), to, casting)


@implements(np.shape)
def _shape(x):
    return x.shape


@implements(np.ndim)
def _ndim(x):
    return x.ndim


@implements(np.size)
def _size(x, axis=None):
    return x.size if axis is None else x.shape[axis]


@implements(np.copy)
def _copy(x, **kw):
    return x.copy()


def _like(fill):
    def h(x, dtype=None, order="K", subok=True, shape=None, **kw):
        shp = x.shape if shape is None else shape
        dt = reported_dtype(x) if dtype is None else np.dtype(dtype)
        if fill is None:
            if dt.kind in "fc":
                # uninitialised memory that the code is going to fill: model as symbolic-capable
                a = np.empty(shp, dtype=object)
                a[...] = float("nan")
                return SymArray(a, dt)
            return np.empty(shp, dtype=dt)
        return np.full(shp, fill, dtype=dt)

    return h


FUNCS[np.zeros_like] = _like(0)
FUNCS[np.ones_like] = _like(1)
FUNCS[np.empty_like] = _like(None)


@implements(np.full_like)
def _full_like(x, fill_value, dtype=None, order="K", subok=True, shape=None, **kw):
    shp = x.shape if shape is None else shape
    dt = reported_dtype(x) if dtype is None else np.dtype(dtype)
    if isinstance(fill_value, (Sym, SymArray)):
        a = np.empty(shp, dtype=object)
        a[...] = obj(fill_value)
        return SymArray(a, dt)
    return np.full(shp, fill_value, dtype=dt)


@implements(np.isin)
def _isin(el, test, **kw):
    raise EngineError("np.isin on symbolic data")


@implements(np.array_equal)
def _array_equal(a, b, equal_nan=False):
    ao, bo = obj(a), obj(b)
    if ao.shape != bo.shape:
        return False
    for x, y in zip(ao.flat, bo.flat):
        if isnan_scalar(x) or isnan_scalar(y):
            if not (equal_nan and isnan_scalar(x) and isnan_scalar(y)):
                return False
            continue
        if not bool(x == y):
            return False
    return True


def _isclose_entry(x, y, rtol, atol, equal_nan):
    """numpy's definition, exactly: |x - y| <= atol + rtol * |y| with the tolerances as exact rationals; the comparison is a
    polynomial inequality like any other, so the path forks on it (the tolerance band is a region of the input space, not noise)"""
    if isnan_scalar(x) or isnan_scalar(y):
        return bool(equal_nan and isnan_scalar(x) and isnan_scalar(y))
    x, y = as_sym_entry(x), as_sym_entry(y)
    d = x - y
    if x.p.has_I() or y.p.has_I():
        # complex: |d|^2 <= (atol + rtol |y|)^2 with |y| the engine's modulus symbol (m >= 0, m^2 == y conj(y))
        lim = Sym.of(atol) + Sym.of(rtol) * abs(y)
        return bool((d * d.conjugate()).real <= lim * lim)
    if y.is_const():
        lim = Sym.of(atol) + Sym.of(rtol) * Sym.of(abs(y.const()))
    else:
        lim = Sym.of(atol) + Sym.of(rtol) * (y if bool(y >= 0) else -y)
    return bool(d <= lim) and bool(-d <= lim)


@implements(np.allclose)
def _allclose(a, b, rtol=1e-5, atol=1e-8, equal_nan=False):
    ao, bo = np.broadcast_arrays(obj(a), obj(b))
    for x, y in zip(ao.flat, bo.flat):
        if not _isclose_entry(x, y, float(rtol), float(atol), equal_nan):
            return False
    return True


@implements(np.isclose)
def _isclose(a, b, rtol=1e-5, atol=1e-8, equal_nan=False):
    r = _map2(lambda x, y: _isclose_entry(x, y, float(rtol), float(atol), equal_nan), a, b)
    return wrap(r, BOOL) if r.ndim else bool(r[()])


@implements(np.may_share_memory, np.shares_memory)
def _msm(a, b, *args, **kw):
    return False


def _einsum_impl(subs: str, ops):
    subs = subs.replace(" ", "")
    if "->" in subs:
        lhs, out = subs.split("->")
    else:
        lhs = subs
        cnt = {}
        for ch in lhs.replace(",", ""):
            cnt[ch] = cnt.get(ch, 0) + 1
        out = "".join(sorted(ch for ch, n in cnt.items() if n == 1))
    terms = lhs.split(",")
    if "." in subs:
        # expand ellipses into explicit (upper-case) broadcast labels, aligned to the right
        nell = 0
        for t, o in zip(terms, ops):
            if "..." in t:
                nell = max(nell, o.ndim - (len(t) - 3))
        pool = [ch for ch in "ABCDEFGHIJKLMNOPQRSTUVWXYZ" if ch not in subs][:nell]
        nt = []
        for t, o in zip(terms, ops):
            if "..." in t:
                k = o.ndim - (len(t) - 3)
                t = t.replace("...", "".join(pool[nell - k:]))
            nt.append(t)
        terms = nt
        if "->" in subs:
            out = out.replace("...", "".join(pool))
        else:
            cnt = {}
            for ch in "".join(terms):
                cnt[ch] = cnt.get(ch, 0) + 1
            out = "".join(pool) + "".join(sorted(ch for ch, n in cnt.items() if n == 1 and ch not in pool))
    sizes = {}
    for t, o in zip(terms, ops):
        if len(t) != o.ndim:
            raise ValueError("einsum subscripts/operand mismatch")
        for ch, n in zip(t, o.shape):
            if sizes.setdefault(ch, n) != n:
                if n == 1 or sizes[ch] == 1:
                    sizes[ch] = max(n, sizes[ch])
                else:
                    raise ValueError("einsum size mismatch")
    summed = [ch for ch in sizes if ch not in out]
    res = np.empty(tuple(sizes[ch] for ch in out), dtype=object)
    for oidx in np.ndindex(*res.shape):
        env = dict(zip(out, oidx))
        tot = Sym.of(0)
        for sidx in itertools.product(*[range(sizes[ch]) for ch in summed]):
            env.update(zip(summed, sidx))
            term = None
            for t, o in zip(terms, ops):
                v = o[tuple(env[ch] if o.shape[i] != 1 else 0 for i, ch in enumerate(t))]
                term = v if term is None else term * v
            tot = tot + term
        res[oidx] = tot
    return res


@implements(np.einsum)
def _einsum(*operands, **kw):
    if not isinstance(operands[0], str):
        raise EngineError("einsum with explicit index lists")
    subs = operands[0]
    ops = [obj(o) for o in operands[1:]]
    dt = np.result_type(*[reported_dtype(o) for o in operands[1:]])
    return wrap(_einsum_impl(subs, ops), dt if dt.kind in "fc" else F64)


@implements(np.tensordot)
def _tensordot(a, b, axes=2):
    r = np.tensordot(obj(a), obj(b), axes=axes)
    dt = np.result_type(reported_dtype(a), reported_dtype(b))
    return wrap_scalar_or_array(r, dt if dt.kind in "fc" else F64)


@implements(np.dot)
def _dot(a, b, out=None):
    r = np.dot(obj(a), obj(b))
    dt = np.result_type(reported_dtype(a), reported_dtype(b))
    return wrap_scalar_or_array(r, dt if dt.kind in "fc" else F64)


@implements(np.vdot)
def _vdot(a, b):
    return _dot(np.conjugate(a).ravel(), SymArray(obj(b), reported_dtype(b)).ravel())


@implements(np.inner)
def _inner(a, b):
    return wrap_scalar_or_array(np.inner(obj(a), obj(b)), np.result_type(reported_dtype(a), reported_dtype(b)))


@implements(np.outer)
def _outer(a, b, out=None):
    return wrap_scalar_or_array(np.outer(obj(a), obj(b)), np.result_type(reported_dtype(a), reported_dtype(b)))


@implements(np.trace)
def _trace(x, offset=0, axis1=0, axis2=1, **kw):
    return wrap_scalar_or_array(np.trace(obj(x), offset, axis1, axis2), reported_dtype(x))


@implements(np.pad)
def _pad(x, pad_width, mode="constant", **kw):
    if mode != "constant":
        raise EngineError(f"np.pad mode {mode}")
    cv = kw.get("constant_values", 0)
    r = np.pad(obj(x), pad_width, mode="constant", constant_values=cv)
    return wrap(r, reported_dtype(x))


@implements(np.angle)
def _angle(z, deg=False):
    from .stubs import uninterpreted

    return uninterpreted("angle", z)


@implements(np.linalg.matrix_transpose) if hasattr(np.linalg, "matrix_transpose") else (lambda f: f)
def _mT(x):
    return SymArray(np.swapaxes(obj(x), -1, -2), reported_dtype(x))


def sym_array(shape, name, complex_=False, values=None, kind="input"):
    """fresh symbolic array; values: optional witness values (float / complex ndarray)"""
    from .scalars import fresh, fresh_complex

    a = np.empty(shape, dtype=object)
    for idx in np.ndindex(*shape):
        nm = name + "".join(f"_{i}" for i in idx)
        v = None if values is None else values[idx]
        a[idx] = fresh_complex(nm, kind, v) if complex_ else fresh(nm, kind, None if v is None else float(np.real(v)))
    return SymArray(a, C128 if complex_ else F64)


@implements(np.cov)
def _cov(m, y=None, rowvar=True, bias=False, ddof=None, **kw):
    if y is not None:
        raise EngineError("np.cov with two inputs")
    a = m if isinstance(m, SymArray) else SymArray(obj(m), reported_dtype(m))
    if a.ndim == 1:
        a = a.reshape((1, -1))
        rowvar = True
    if not rowvar:
        a = a.T
    n = a.shape[1]
    dd = (0 if bias else 1) if ddof is None else ddof
    c = a - np.mean(a, axis=1, keepdims=True)
    r = (c @ np.conjugate(c).T) / (n - dd)
    if r.shape == (1, 1):
        return r.reshape(())
    return r
