"""Sparse multivariate Laurent polynomials over Q(i).

A value is a dict  monomial -> Fraction  where a monomial is a sorted tuple of
(var_index, exponent) pairs with non-zero integer exponents.  Variable index 0 is
reserved for the imaginary unit I (exponent always 1, I*I is rewritten to -1), so
complex numbers need no second class: conj() negates the coefficients of the
monomials that contain I.

Everything is exact; floats met in the code are lifted with Fraction(float).
"""
from __future__ import annotations

import math
from fractions import Fraction
from numbers import Number

I_VAR = 0
ONE = ()  # the empty monomial


def mono_mul(a: tuple, b: tuple):
    """product of two monomials -> (sign, monomial); sign=-1 if I*I was reduced."""
    if not a:
        return 1, b
    if not b:
        return 1, a
    sign = 1
    out = []
    i = j = 0
    la, lb = len(a), len(b)
    while i < la and j < lb:
        va, ea = a[i]
        vb, eb = b[j]
        if va == vb:
            if va == I_VAR:
                sign = -1
            else:
                e = ea + eb
                if e:
                    out.append((va, e))
            i += 1
            j += 1
        elif va < vb:
            out.append(a[i])
            i += 1
        else:
            out.append(b[j])
            j += 1
    if i < la:
        out.extend(a[i:])
    if j < lb:
        out.extend(b[j:])
    return sign, tuple(out)


def mono_pow(a: tuple, n: int):
    """a**n for a monomial without I."""
    return tuple((v, e * n) for v, e in a)


def mono_has_I(m: tuple) -> bool:
    return bool(m) and m[0][0] == I_VAR


def mono_degree(m: tuple) -> int:
    return sum(abs(e) for v, e in m if v != I_VAR)


def mono_divides(m: tuple, t: tuple):
    """generalised divisibility: every variable of m occurs in t with an exponent of
    the same sign and at least the same magnitude.  Returns t/m or None."""
    dt = dict(t)
    for v, e in m:
        et = dt.get(v)
        if et is None:
            return None
        if v == I_VAR:
            del dt[v]
            continue
        if (e > 0) != (et > 0) or abs(e) > abs(et):
            return None
        r = et - e
        if r:
            dt[v] = r
        else:
            del dt[v]
    return tuple(sorted(dt.items()))


def _frac(x) -> Fraction:
    if isinstance(x, Fraction):
        return x
    if isinstance(x, bool):
        return Fraction(int(x))
    if isinstance(x, int):
        return Fraction(x)
    if isinstance(x, float):
        return Fraction(x)
    import numpy as np

    if isinstance(x, np.integer):
        return Fraction(int(x))
    if isinstance(x, np.floating):
        return Fraction(float(x))
    if isinstance(x, np.bool_):
        return Fraction(int(x))
    raise TypeError(f"cannot lift {type(x).__name__} to Fraction")


class Poly:
    """immutable Laurent polynomial"""

    __slots__ = ("t",)

    def __init__(self, terms=None):
        self.t = terms if terms is not None else {}

    # ---- construction -------------------------------------------------------------
    @staticmethod
    def const(c) -> "Poly":
        if isinstance(c, complex) or (hasattr(c, "imag") and not isinstance(c, (int, float, Fraction)) and getattr(c, "imag", 0) != 0):
            re, im = _frac(c.real), _frac(c.imag)
            t = {}
            if re:
                t[ONE] = re
            if im:
                t[((I_VAR, 1),)] = im
            return Poly(t)
        if hasattr(c, "real") and not isinstance(c, (int, float, Fraction)):
            c = c.real
        f = _frac(c)
        return Poly({ONE: f} if f else {})

    @staticmethod
    def var(idx: int, exp: int = 1) -> "Poly":
        return Poly({((idx, exp),): Fraction(1)})

    @staticmethod
    def I() -> "Poly":
        return Poly({((I_VAR, 1),): Fraction(1)})

    # ---- queries ------------------------------------------------------------------
    def is_zero(self) -> bool:
        return not self.t

    def is_const(self) -> bool:
        return all((not m) or m == ((I_VAR, 1),) for m in self.t)

    def is_real_const(self) -> bool:
        return not self.t or (len(self.t) == 1 and ONE in self.t)

    def const_value(self):
        """Fraction (or complex pair) of a constant polynomial"""
        re = self.t.get(ONE, Fraction(0))
        im = self.t.get(((I_VAR, 1),), Fraction(0))
        if im:
            return complex(float(re), float(im))
        return re

    def is_monomial(self) -> bool:
        return len(self.t) == 1

    def has_I(self) -> bool:
        return any(mono_has_I(m) for m in self.t)

    def vars(self) -> set:
        s = set()
        for m in self.t:
            for v, _ in m:
                if v != I_VAR:
                    s.add(v)
        return s

    def degree(self) -> int:
        return max((mono_degree(m) for m in self.t), default=0)

    def key(self):
        return tuple(sorted(self.t.items()))

    # ---- arithmetic ---------------------------------------------------------------
    def __add__(self, o: "Poly") -> "Poly":
        if not o.t:
            return self
        if not self.t:
            return o
        if len(self.t) < len(o.t):
            self, o = o, self
        t = dict(self.t)
        for m, c in o.t.items():
            v = t.get(m)
            if v is None:
                t[m] = c
            else:
                v = v + c
                if v:
                    t[m] = v
                else:
                    del t[m]
        return Poly(t)

    def __neg__(self) -> "Poly":
        return Poly({m: -c for m, c in self.t.items()})

    def __sub__(self, o: "Poly") -> "Poly":
        return self + (-o)

    def scale(self, c: Fraction) -> "Poly":
        if not c:
            return Poly()
        if c == 1:
            return self
        return Poly({m: v * c for m, v in self.t.items()})

    def __mul__(self, o: "Poly") -> "Poly":
        if not self.t or not o.t:
            return Poly()
        if len(o.t) == 1:
            ((mo, co),) = o.t.items()
            if not mo:
                return self.scale(co)
        if len(self.t) == 1:
            ((ms, cs),) = self.t.items()
            if not ms:
                return o.scale(cs)
        t = {}
        for ma, ca in self.t.items():
            for mb, cb in o.t.items():
                sg, m = mono_mul(ma, mb)
                c = ca * cb
                if sg < 0:
                    c = -c
                v = t.get(m)
                if v is None:
                    t[m] = c
                else:
                    v = v + c
                    if v:
                        t[m] = v
                    else:
                        del t[m]
        return Poly(t)

    def mul_mono(self, q: tuple, c: Fraction = Fraction(1)) -> "Poly":
        t = {}
        for m, v in self.t.items():
            sg, mm = mono_mul(m, q)
            cc = v * c
            if sg < 0:
                cc = -cc
            if mm in t:
                cc = t[mm] + cc
                if cc:
                    t[mm] = cc
                else:
                    del t[mm]
            elif cc:
                t[mm] = cc
        return Poly(t)

    def inv_monomial(self) -> "Poly":
        """1/self for a single-term polynomial"""
        ((m, c),) = self.t.items()
        if mono_has_I(m):
            # 1/(c I m') = -I/(c m')
            rest = m[1:]
            return Poly({((I_VAR, 1),) + mono_pow(rest, -1): -1 / c})
        return Poly({mono_pow(m, -1): 1 / c})

    def __pow__(self, n: int) -> "Poly":
        if n == 0:
            return Poly({ONE: Fraction(1)})
        if n < 0:
            if len(self.t) != 1:
                raise ValueError("negative power of a non-monomial")
            return self.inv_monomial() ** (-n)
        r = Poly({ONE: Fraction(1)})
        b = self
        while n:
            if n & 1:
                r = r * b
            n >>= 1
            if n:
                b = b * b
        return r

    def conj(self) -> "Poly":
        if not self.has_I():
            return self
        return Poly({m: (-c if mono_has_I(m) else c) for m, c in self.t.items()})

    def real(self) -> "Poly":
        if not self.has_I():
            return self
        return Poly({m: c for m, c in self.t.items() if not mono_has_I(m)})

    def imag(self) -> "Poly":
        return Poly({m[1:]: c for m, c in self.t.items() if mono_has_I(m)})

    def __eq__(self, o):
        return isinstance(o, Poly) and self.t == o.t

    def __hash__(self):
        return hash(self.key())

    # ---- evaluation ---------------------------------------------------------------
    def eval(self, val):
        """numeric evaluation; val: var index -> float"""
        tot = 0.0
        for m, c in self.t.items():
            x = float(c)
            for v, e in m:
                if v == I_VAR:
                    x = x * 1j
                else:
                    b = val(v)
                    x = x * (b**e)
            tot = tot + x
        return tot

    def subs_exact(self, val):
        """exact evaluation with Fractions; val: var -> Fraction (real only)"""
        tot = Fraction(0)
        for m, c in self.t.items():
            x = c
            for v, e in m:
                if v == I_VAR:
                    raise ValueError("complex")
                x = x * (val(v) ** e)
            tot += x
        return tot

    def fmt(self, names=None, maxterms=12) -> str:
        if not self.t:
            return "0"
        out = []
        for k, (m, c) in enumerate(sorted(self.t.items())):
            if k >= maxterms:
                out.append(f"...(+{len(self.t) - maxterms} terms)")
                break
            fs = []
            for v, e in m:
                n = "I" if v == I_VAR else (names(v) if names else f"v{v}")
                fs.append(n if e == 1 else f"{n}^{e}")
            cs = str(c)
            if fs:
                if c == 1:
                    out.append("*".join(fs))
                elif c == -1:
                    out.append("-" + "*".join(fs))
                else:
                    out.append(cs + "*" + "*".join(fs))
            else:
                out.append(cs)
        return " + ".join(out).replace("+ -", "- ")


ZERO = Poly()
PONE = Poly({ONE: Fraction(1)})
