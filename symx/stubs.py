"""Contract stubs for the environment below xeofs: LAPACK (svd / inv / pinv / eig / eigh / norm),
sklearn's randomized_svd, scipy's svds, scipy.signal.hilbert; uninterpreted transcendental functions.

Every stub returns fresh symbols of the right shape plus the assumptions of its contract, and gives
each fresh symbol a witness value by running the *real* routine on the witness value of its input.
"""
from __future__ import annotations

import contextlib
import importlib
import sys
import types

import numpy as np
from fractions import Fraction

from .array import BOOL, C128, F64, FUNCS, SymArray, implements, obj, reported_dtype, sym_array, wrap, isnan_scalar
from .ctx import EngineError, cur
from .poly import Poly
from .scalars import Sym, fresh, fresh_complex


def witness(x) -> np.ndarray:
    """numeric value of a symbolic array at the witness valuation"""
    c = cur()
    a = obj(x)
    cplx = reported_dtype(x).kind == "c"
    out = np.empty(a.shape, dtype=complex if cplx else float)
    for idx in np.ndindex(*a.shape):
        v = a[idx]
        if isinstance(v, Sym):
            v = c.eval(v.p)
            if not cplx and isinstance(v, complex):
                v = v.real
        out[idx] = v
    return out


def alias_entries(M, tag, limit=6):
    """replace entries whose polynomial has more than `limit` terms by a fresh alias variable with the
    defining equation alias == entry (keeps stub contracts small; nothing is lost: the definition is an
    assumption the solver can unfold)"""
    from .scalars import alias_poly

    Mo = obj(M)
    out = np.empty(Mo.shape, dtype=object)
    for idx in np.ndindex(*Mo.shape):
        v = Mo[idx]
        if not isinstance(v, Sym) or len(v.p.t) <= limit:
            out[idx] = v
        else:
            out[idx] = Sym(alias_poly(v.p, f"alias ({tag})"))
    return SymArray(out, reported_dtype(M))


def _safe(f, *a, **k):
    """run the real routine on witness values; None when it fails (non-witness paths)"""
    try:
        with np.errstate(all="ignore"):
            return f(*a, **k)
    except Exception:
        return None


def witness_or_none(x):
    try:
        w = witness(x)
    except EngineError:
        cur().on_witness = False
        return None
    if not np.all(np.isfinite(w)):
        return None
    return w


def _key(x):
    a = obj(x)
    return (a.shape, tuple(v.p.key() if isinstance(v, Sym) else ("c", repr(v)) for v in a.flat))


def _check_no_nan(a, what):
    for v in a.flat:
        if isnan_scalar(v):
            raise np.linalg.LinAlgError(f"{what}: input contains NaN")


def _eye_minus(G, n):
    """entries of G - I"""
    out = []
    for i in range(n):
        for j in range(n):
            out.append(((i, j), G[i, j] - (1 if i == j else 0)))
    return out


def svd_contract(M, U, s, VT, tag, full_U=False, full_V=False, exact=True):
    """assumptions:  M == U[:, :k] diag(s) VT[:k, :]  (only if exact),  U^H U = I,  VT VT^H = I,
    s descending and non-negative"""
    c = cur()
    Mo, Uo, so, Vo = obj(M), obj(U), obj(s), obj(VT)
    n, p = Mo.shape
    k = so.shape[0]
    if exact:
        for i in range(n):
            for j in range(p):
                tot = Sym.of(0)
                for l in range(k):
                    tot = tot + Uo[i, l] * so[l] * Vo[l, j]
                c.assume("eq", (Sym.of(Mo[i, j]) - tot).p, f"{tag}: M = U S V^H")
    ku = Uo.shape[1]
    for a in range(ku):
        for b in range(a, ku):
            tot = Sym.of(0)
            for i in range(n):
                tot = tot + Uo[i, a].conjugate() * Uo[i, b]
            c.assume("eq", (tot - (1 if a == b else 0)).p, f"{tag}: U^H U = I")
    if ku == n:
        for a in range(n):
            for b in range(a, n):
                tot = Sym.of(0)
                for l in range(ku):
                    tot = tot + Uo[a, l] * Uo[b, l].conjugate()
                c.assume("eq", (tot - (1 if a == b else 0)).p, f"{tag}: U U^H = I")
    kv = Vo.shape[0]
    for a in range(kv):
        for b in range(a, kv):
            tot = Sym.of(0)
            for j in range(p):
                tot = tot + Vo[a, j] * Vo[b, j].conjugate()
            c.assume("eq", (tot - (1 if a == b else 0)).p, f"{tag}: V^H V = I")
    if kv == p:
        for a in range(p):
            for b in range(a, p):
                tot = Sym.of(0)
                for l in range(kv):
                    tot = tot + Vo[l, a].conjugate() * Vo[l, b]
                c.assume("eq", (tot - (1 if a == b else 0)).p, f"{tag}: V V^H = I")
    for l in range(k):
        if l + 1 < k:
            c.assume("ge", (so[l] - so[l + 1]).p, f"{tag}: s descending")
    if k and c.options.get("full_rank"):
        from fractions import Fraction

        c.assume("gt", (so[k - 1] - Fraction(1, 10**12)).p, f"{tag}: full rank (s_min > 1e-12) [configuration assumption]")
        c.notes.append("configuration assumes full rank: every singular value of every decomposed matrix > 1e-12")
    if k:
        c.assume("ge", so[k - 1].p, f"{tag}: s >= 0")
        for l in range(k - 1):
            c.assume("ge", so[l].p, f"{tag}: s >= 0")


def _phase_freedom(c, M, U2, s1, V2, full):
    """complex singular vectors are unique only up to a unit complex phase per mode, and xeofs' sign convention removes
    only a factor +-1: the factors of a related complex matrix carry a fresh phase tau_l (|tau_l| = 1) per mode.
    Witness value of tau_l: from LAPACK's actual factors of the new matrix."""
    Uo, Vo = obj(U2).copy(), obj(V2).copy()
    k = obj(s1).shape[0]
    M0 = witness_or_none(M)
    res0 = _safe(np.linalg.svd, M0, full_matrices=bool(full)) if M0 is not None else None
    V2w = witness_or_none(V2)
    for l in range(min(k, Vo.shape[0], Uo.shape[1])):
        tv = None
        if res0 is not None and V2w is not None:
            ip = np.vdot(V2w[l, :], res0[2][l, :])  # <old, new>
            if abs(ip) > 1e-12:
                tv = ip / abs(ip)
        tau = fresh_complex(f"tau{len(c.vars)}", "stub", tv, "phase freedom of complex singular vectors")
        c.assume("eq", ((tau * tau.conjugate()).real - 1).p, "phase: |tau| = 1")
        for j in range(Vo.shape[1]):
            Vo[l, j] = Vo[l, j] * tau
        for i in range(Uo.shape[0]):
            Uo[i, l] = Uo[i, l] * tau.conjugate()
    c.notes.append("complex SVD of a related matrix: per-mode phase modelled as a fresh unit complex number")
    return SymArray(Uo, C128), SymArray(Vo, C128)


def _svd_related(c, cache, M, k_keep, full, routine_name):
    """equivariance of the SVD (textbook linear algebra, stated in the evidence): if the matrix is a row/column
    permutation of, or a scalar multiple (by one symbolic variable) of, a matrix decomposed before, the factors
    are the correspondingly permuted / scaled earlier factors. The relation is verified syntactically (entrywise
    identical polynomials). LAPACK's arbitrary per-mode sign for the second call is idealised as the same one;
    the deterministic sign convention that removes this freedom is verified on its own (C15)."""
    Mo = obj(M)
    n, p = Mo.shape
    keys = np.empty(Mo.shape, dtype=object)
    for idx in np.ndindex(*Mo.shape):
        v = Mo[idx]
        keys[idx] = v.p.key() if isinstance(v, Sym) else ("c", repr(v))
    for (k1, kk, ff), (U1, s1, V1) in list(cache.items()):
        if kk != k_keep or ff != full or k1[0] != Mo.shape:
            continue
        old = np.empty(Mo.shape, dtype=object)
        for t, idx in zip(k1[1], np.ndindex(*Mo.shape)):
            old[idx] = t
        # column permutation (rows identical)
        colsig_old = [tuple(old[:, j]) for j in range(p)]
        colsig_new = [tuple(keys[:, j]) for j in range(p)]
        if sorted(map(repr, colsig_old)) == sorted(map(repr, colsig_new)) and len(set(map(repr, colsig_old))) == p:
            perm = [colsig_old.index(cs) for cs in colsig_new]  # new col j == old col perm[j]
            c.stub_log.append({"stub": routine_name, "shape": [n, p], "k": k_keep, "related": f"column permutation {perm}"})
            c.notes.append("SVD equivariance used: column permutation of an earlier input")
            U2, V2 = U1.copy(), SymArray(obj(V1)[:, perm].copy(), reported_dtype(V1))
            if reported_dtype(M).kind == "c":
                U2, V2 = _phase_freedom(c, M, U2, s1, V2, full)
            return U2, s1.copy(), V2
        rowsig_old = [tuple(old[i, :]) for i in range(n)]
        rowsig_new = [tuple(keys[i, :]) for i in range(n)]
        if sorted(map(repr, rowsig_old)) == sorted(map(repr, rowsig_new)) and len(set(map(repr, rowsig_old))) == n:
            perm = [rowsig_old.index(rs) for rs in rowsig_new]
            c.stub_log.append({"stub": routine_name, "shape": [n, p], "k": k_keep, "related": f"row permutation {perm}"})
            c.notes.append("SVD equivariance used: row permutation of an earlier input")
            U2, V2 = SymArray(obj(U1)[perm, :].copy(), reported_dtype(U1)), V1.copy()
            if reported_dtype(M).kind == "c":
                U2, V2 = _phase_freedom(c, M, U2, s1, V2, full)
            return U2, s1.copy(), V2
    # Gram matrix of an earlier input: M == c * M1^H M1  ->  (V1, c*s1^2 (zero-padded), V1^H)   [M1 = U1 S1 V1^H]
    if n == p:
        for (k1, kk, ff), (U1, s1, V1) in list(cache.items()):
            M1 = c.caches.get("svd_inputs", {}).get((k1, kk, ff))
            if M1 is None or M1.ndim != 2 or M1.shape[1] != p or not ff or k_keep is not None or kk is not None:
                continue
            if obj(V1).shape != (p, p):
                continue
            try:
                G = np.conjugate(M1).T @ M1
            except Exception:
                continue
            n1 = M1.shape[0]
            for cst in (Fraction(1), Fraction(1, max(1, n1 - 1)), Fraction(1, n1)):
                if all(isinstance(a, Sym) and isinstance(b, Sym) and a.p.scale(cst) == b.p for a, b in zip(G.flat, Mo.flat)):
                    s1o = obj(s1)
                    sq = np.empty((p,), dtype=object)
                    for l in range(p):
                        sq[l] = (s1o[l] * s1o[l] * cst) if l < s1o.shape[0] else Sym.of(0)
                    c.stub_log.append({"stub": routine_name, "shape": [n, p], "k": k_keep, "related": f"Gram matrix ({cst}) of an earlier input"})
                    c.notes.append("SVD equivariance used: Gram matrix of an earlier input (right singular vectors of M are the eigenvectors of M^H M)")
                    V1o = obj(V1)
                    return SymArray(np.conjugate(SymArray(V1o, reported_dtype(V1))).a.T.copy(), reported_dtype(V1)), SymArray(sq, F64), V1.copy()
    # scalar multiple by one fresh variable
    newvars = set()
    for v in Mo.flat:
        if isinstance(v, Sym):
            newvars |= v.p.vars()
    for (k1, kk, ff), (U1, s1, V1) in list(cache.items()):
        if kk != k_keep or ff != full or k1[0] != Mo.shape:
            continue
        M1 = c.caches.get("svd_inputs", {}).get((k1, kk, ff))
        if M1 is None:
            continue
        oldvars = set()
        for v in M1.flat:
            if isinstance(v, Sym):
                oldvars |= v.p.vars()
        for cv, ex in [(v, e) for v in sorted(newvars - oldvars) for e in (1, 2)]:
            cp = Poly.var(cv, ex)
            if all(isinstance(a, Sym) and isinstance(b, Sym) and (a.p * cp) == b.p for a, b in zip(M1.flat, Mo.flat)):
                pos = True if ex == 2 else bool(Sym(cp) > 0)
                c.stub_log.append({"stub": routine_name, "shape": [n, p], "k": k_keep, "related": f"scalar multiple by {c.name_of(cv)} ({'>' if pos else '<'} 0)"})
                c.notes.append("SVD equivariance used: scalar multiple of an earlier input")
                absc = Sym(cp) if pos else Sym(-cp)
                U2 = U1.copy() if pos else SymArray(-obj(U1), reported_dtype(U1))
                return U2, SymArray(obj(s1) * absc, F64), V1.copy()
    return None


def _svd_generic(M, k_keep, full_matrices, routine_name, exact=True):
    """shared implementation: k_keep = number of singular triplets returned (None: all)"""
    c = cur()
    Mo = obj(M)
    if Mo.ndim != 2:
        raise EngineError("svd of a non-matrix")
    _check_no_nan(Mo, "svd")
    n, p = Mo.shape
    r = min(n, p)
    cplx = reported_dtype(M).kind == "c"
    cache = c.caches.setdefault("svd", {})
    key = (_key(M), k_keep, bool(full_matrices))
    if key in cache:
        c.stub_log.append({"stub": routine_name, "shape": [n, p], "k": k_keep, "cached": True})
        return tuple(x.copy() for x in cache[key])  # callers modify the factors in place
    M_in = M
    rel = _svd_related(c, cache, M, k_keep, bool(full_matrices), routine_name)
    if rel is not None:
        return rel
    M0 = witness_or_none(M)
    res0 = _safe(np.linalg.svd, M0, full_matrices=bool(full_matrices)) if M0 is not None else None
    if res0 is None:
        c.on_witness = False
        U0 = s0 = V0 = None
    else:
        U0, s0, V0 = res0
    M = alias_entries(M, routine_name)
    Mo = obj(M)
    k = r if k_keep is None else k_keep
    if k > r:
        raise ValueError(f"k={k} exceeds min(shape)={r}")
    idn = len(cache)
    if full_matrices and k_keep is None:
        ucols, vrows = n, p
    else:
        ucols, vrows = k, k
    U = sym_array((n, ucols), f"U{idn}", cplx, None if U0 is None else U0[:, :ucols], kind="stub")
    s = sym_array((k,), f"s{idn}", False, None if s0 is None else s0[:k], kind="stub")
    VT = sym_array((vrows, p), f"W{idn}", cplx, None if V0 is None else V0[:vrows, :], kind="stub")
    tag = f"{routine_name}#{idn}"
    svd_contract(M, U, s, VT, tag, exact=(exact and k == r))
    if k < r:
        # truncated decomposition: M = U_k S_k V_k^H + R  with  U_k^H R = 0 and R V_k = 0
        R = sym_array((n, p), f"R{idn}", cplx, None if U0 is None else M0 - (U0[:, :k] * s0[:k]) @ V0[:k, :], kind="stub")
        Uo, so, Vo, Ro = obj(U), obj(s), obj(VT), obj(R)
        for i in range(n):
            for j in range(p):
                tot = Ro[i, j]
                for l in range(k):
                    tot = tot + Uo[i, l] * so[l] * Vo[l, j]
                c.assume("eq", (Sym.of(Mo[i, j]) - tot).p, f"{tag}: M = U_k S_k V_k^H + R")
        for l in range(k):
            for j in range(p):
                tot = Sym.of(0)
                for i in range(n):
                    tot = tot + Uo[i, l].conjugate() * Ro[i, j]
                c.assume("eq", tot.p, f"{tag}: U_k^H R = 0")
            for i in range(n):
                tot = Sym.of(0)
                for j in range(p):
                    tot = tot + Ro[i, j] * Vo[l, j].conjugate()
                c.assume("eq", tot.p, f"{tag}: R V_k = 0")
    if c.options.get("hermitian_psd_inputs") and n == p and k == r:
        Mi = obj(M_in)
        herm = all(isinstance(Mi[i, j], Sym) and isinstance(Mi[j, i], Sym) and Mi[i, j].p == Mi[j, i].p.conj() for i in range(n) for j in range(i, n))
        if herm:
            Uo_, Vo_ = obj(U), obj(VT)
            for i in range(n):
                for l in range(k):
                    c.assume("eq", (Uo_[i, l] - Vo_[l, i].conjugate()).p, f"{tag}: Hermitian PSD input, U = V [configuration assumption]")
            c.notes.append("Hermitian (Gram) SVD input assumed positive semi-definite: left and right singular vectors coincide")
    c.stub_log.append({"stub": routine_name, "shape": [n, p], "k": k_keep, "full_matrices": bool(full_matrices), "U": U, "s": s, "VT": VT, "M": M, "tag": tag})
    cache[key] = (U.copy(), s.copy(), VT.copy())
    c.caches.setdefault("svd_inputs", {})[key] = obj(M_in).copy()
    return U, s, VT


@implements(np.linalg.svd)
def _np_svd(a, full_matrices=True, compute_uv=True, hermitian=False):
    U, s, VT = _svd_generic(a, None, full_matrices, "np.linalg.svd")
    c = cur()
    c.stub_log[-1]["kwargs"] = {"full_matrices": full_matrices, "compute_uv": compute_uv, "hermitian": hermitian}
    if not compute_uv:
        return s
    return U, s, VT


def randomized_svd_stub(M, n_components, **kwargs):
    """sklearn.utils.extmath.randomized_svd idealised as the exact truncated SVD (its accuracy is
    outside the claim); the keyword arguments it received are recorded."""
    if not isinstance(M, SymArray):
        from sklearn.utils.extmath import randomized_svd as real

        return real(M, n_components, **kwargs)
    # sklearn does not refuse n_components > min(shape): it returns min(shape) triplets (probed) - the stub must not be stricter than the routine
    U, s, VT = _svd_generic(M, min(int(n_components), min(M.shape)), False, "randomized_svd")
    cur().stub_log[-1]["kwargs"] = dict(kwargs, n_components=n_components)
    return U, s, VT


def svds_stub(M, k=6, **kwargs):
    """scipy.sparse.linalg.svds: k largest triplets, returned in ASCENDING order of s"""
    if not isinstance(M, SymArray):
        from scipy.sparse.linalg import svds as real

        return real(M, k=k, **kwargs)
    U, s, VT = _svd_generic(M, int(k), False, "svds")
    cur().stub_log[-1]["kwargs"] = dict(kwargs, k=k)
    return U[:, ::-1], s[::-1], VT[::-1, :]


# ---------------------------------------------------------------------------------------
# inverse / pseudo-inverse


def _det_and_adj(Ao):
    n = Ao.shape[0]
    if n == 1:
        return Ao[0, 0], np.array([[Sym.of(1)]], dtype=object)
    if n == 2:
        a, b, c_, d = Ao[0, 0], Ao[0, 1], Ao[1, 0], Ao[1, 1]
        det = a * d - b * c_
        adj = np.array([[d, -b], [-c_, a]], dtype=object)
        return det, adj
    return None, None


@implements(np.linalg.inv)
def _np_inv(A):
    c = cur()
    Ao = obj(A)
    if Ao.ndim != 2 or Ao.shape[0] != Ao.shape[1]:
        raise np.linalg.LinAlgError("Last 2 dimensions of the array must be square")
    _check_no_nan(Ao, "inv")
    n = Ao.shape[0]
    cache = c.caches.setdefault("inv", {})
    key = _key(A)
    if key in cache:
        return cache[key].copy()
    cplx = reported_dtype(A).kind == "c"
    A0 = witness_or_none(A)
    B0 = _safe(np.linalg.inv, A0) if A0 is not None else None
    if B0 is None:
        c.on_witness = False
    idn = len(cache)
    A = alias_entries(A, "inv")
    Ao = obj(A)
    det, adj = _det_and_adj(Ao)
    if det is not None and c.options.get("inv", "fresh") == "adjugate":
        out = np.empty((n, n), dtype=object)
        for i in range(n):
            for j in range(n):
                out[i, j] = adj[i, j] / det
        B = SymArray(out, C128 if cplx else F64)
    else:
        B = sym_array((n, n), f"inv{idn}", cplx, B0, kind="stub")
        Bo = obj(B)
        for i in range(n):
            for j in range(n):
                t1 = Sym.of(0)
                t2 = Sym.of(0)
                for l in range(n):
                    t1 = t1 + Ao[i, l] * Bo[l, j]
                    t2 = t2 + Bo[i, l] * Ao[l, j]
                c.assume("eq", (t1 - (1 if i == j else 0)).p, f"inv#{idn}: A B = I")
                c.assume("eq", (t2 - (1 if i == j else 0)).p, f"inv#{idn}: B A = I")
    c.stub_log.append({"stub": "np.linalg.inv", "shape": [n, n], "A": A, "B": B})
    cache[key] = B.copy()
    return B


@implements(np.linalg.pinv)
def _np_pinv(A, rcond=None, hermitian=False, *, rtol=None):
    """Moore-Penrose inverse on the full-column-rank / full-row-rank path:
    A^+ A = I (n >= p) or A A^+ = I (n <= p), plus the symmetry conditions."""
    c = cur()
    Ao = obj(A)
    _check_no_nan(Ao, "pinv")
    n, p = Ao.shape
    if n == p:
        # a cut-off (rcond / rtol) makes pinv differ from the inverse where a direction is dropped. If that happens AT THE WITNESS the inverse
        # contract does not describe what the code computes there: hand out contract-free symbols carrying the real routine's values, so that
        # nothing is proved from an inverse that is not one and the obligations are decided at the witness (and replayed)
        A0w = witness_or_none(A)
        if A0w is not None:
            kw = {"hermitian": hermitian}
            if rcond is not None:
                kw["rcond"] = rcond
            if rtol is not None:
                kw["rtol"] = rtol
            B0w, I0w = _safe(np.linalg.pinv, A0w, **kw), _safe(np.linalg.inv, A0w)
            if B0w is not None and I0w is not None and np.all(np.isfinite(I0w)) and not np.allclose(B0w, I0w, rtol=1e-6, atol=1e-9 * float(np.abs(I0w).max())):
                ck = c.caches.setdefault("pinv-cut", {})
                key = _key(A)
                if key not in ck:
                    ck[key] = sym_array((p, n), f"pinvcut{len(ck)}", reported_dtype(A).kind == "c", B0w, kind="stub")
                    c.stub_log.append({"stub": "np.linalg.pinv (cut-off drops a direction at the witness: no contract)", "shape": [n, p]})
                    c.notes.append("pinv with a cut-off that drops a direction at the witness: contract-free symbols")
                return ck[key]
        return _np_inv(A)
    cache = c.caches.setdefault("pinv", {})
    key = _key(A)
    if key in cache:
        return cache[key]
    cplx = reported_dtype(A).kind == "c"
    A0 = witness_or_none(A)
    B0 = _safe(np.linalg.pinv, A0) if A0 is not None else None
    if B0 is None:
        c.on_witness = False
    idn = len(cache)
    A = alias_entries(A, "pinv")
    Ao = obj(A)
    B = sym_array((p, n), f"pinv{idn}", cplx, B0, kind="stub")
    Bo = obj(B)
    if n > p:
        for i in range(p):
            for j in range(p):
                t = Sym.of(0)
                for l in range(n):
                    t = t + Bo[i, l] * Ao[l, j]
                c.assume("eq", (t - (1 if i == j else 0)).p, f"pinv#{idn}: A+ A = I (full column rank)")
    else:
        for i in range(n):
            for j in range(n):
                t = Sym.of(0)
                for l in range(p):
                    t = t + Ao[i, l] * Bo[l, j]
                c.assume("eq", (t - (1 if i == j else 0)).p, f"pinv#{idn}: A A+ = I (full row rank)")
    c.stub_log.append({"stub": "np.linalg.pinv", "shape": [n, p], "A": A, "B": B})
    cache[key] = B
    return B


@implements(np.linalg.norm)
def _np_norm(x, ord=None, axis=None, keepdims=False):
    if ord not in (None, 2, "fro"):
        raise EngineError(f"norm ord={ord}")
    xa = x if isinstance(x, SymArray) else SymArray(obj(x), reported_dtype(x))
    sq = (xa * np.conjugate(xa)).real
    tot = np.sum(sq, axis=axis, keepdims=keepdims)
    return np.sqrt(tot)


@implements(np.linalg.multi_dot)
def _multi_dot(arrays, out=None):
    r = arrays[0]
    for a in arrays[1:]:
        r = np.matmul(r, a)
    return r


@implements(np.linalg.det)
def _np_det(A):
    Ao = obj(A)
    det, _ = _det_and_adj(Ao)
    if det is None:
        raise EngineError("det of a matrix larger than 2x2")
    return det


@implements(np.linalg.matrix_rank)
def _matrix_rank(A, *a, **k):
    raise EngineError("matrix_rank on symbolic data")


# ---------------------------------------------------------------------------------------
# eig (general, complex output)


@implements(np.linalg.eig)
def _np_eig(A):
    c = cur()
    Ao = obj(A)
    _check_no_nan(Ao, "eig")
    n = Ao.shape[0]
    cache = c.caches.setdefault("eig", {})
    key = _key(A)
    if key in cache:
        return cache[key]
    A0 = witness_or_none(A)
    r0 = _safe(np.linalg.eig, A0) if A0 is not None else None
    if r0 is None:
        c.on_witness = False
        w0 = P0 = None
    else:
        w0, P0 = r0[0].astype(complex), r0[1].astype(complex)
    idn = len(cache)
    A = alias_entries(A, "eig")
    Ao = obj(A)
    lam = sym_array((n,), f"lam{idn}", True, w0, kind="stub")
    P = sym_array((n, n), f"P{idn}", True, P0, kind="stub")
    lo, Po = obj(lam), obj(P)
    for i in range(n):
        for j in range(n):
            t = Sym.of(0)
            for l in range(n):
                t = t + Ao[i, l] * Po[l, j]
            c.assume("eq", (t - Po[i, j] * lo[j]).p, f"eig#{idn}: A P = P diag(lam)")
    for j in range(n):
        t = Sym.of(0)
        for i in range(n):
            t = t + (Po[i, j] * Po[i, j].conjugate()).real
        c.assume("eq", (t - 1).p, f"eig#{idn}: unit-norm eigenvectors")
    c.stub_log.append({"stub": "np.linalg.eig", "shape": [n, n], "A": A, "lam": lam, "P": P})
    cache[key] = (lam, P)
    return lam, P


# ---------------------------------------------------------------------------------------
# uninterpreted functions


def uninterpreted(name, *args):
    """name(x) as a fresh symbol per distinct argument (functional consistency only)"""
    c = cur()
    real_f = {"log": np.log, "exp": np.exp, "cos": np.cos, "sin": np.sin, "angle": np.angle, "arctan2": np.arctan2, "log10": np.log10, "log2": np.log2}.get(name)
    if real_f is None:
        raise EngineError(f"function {name} on symbolic data")
    arrs = [obj(a) for a in args]
    arrs = np.broadcast_arrays(*arrs)
    out = np.empty(arrs[0].shape, dtype=object)
    cache = c.caches.setdefault("uf", {})
    for idx in np.ndindex(*out.shape):
        vs = [a[idx] for a in arrs]
        if any(isnan_scalar(v) for v in vs):
            out[idx] = float("nan")
            continue
        vs = [Sym.of(v) for v in vs]
        if all(v.is_const() for v in vs):
            with np.errstate(all="ignore"):
                r = real_f(*[complex(v.const()) if isinstance(v.const(), complex) else float(v.const()) for v in vs])
            if r != r or np.isinf(r):
                out[idx] = float(r)
            else:
                out[idx] = Sym.of(float(r))
            continue
        key = (name, tuple(v.p.key() for v in vs))
        if key not in cache:
            with np.errstate(all="ignore"):
                wv = [c.eval(v.p) for v in vs]
                wv = [w.real if (isinstance(w, complex) and abs(w.imag) < 1e-300 and name != "angle") else w for w in wv]
                val = real_f(*wv)
            cache[key] = fresh(f"{name.upper()}{len(c.vars)}", "aux", float(np.real(val)), f"{name}({', '.join(v.p.fmt(c.name_of, 4) for v in vs)})")
            c.notes.append(f"uninterpreted {name}")
            cache.setdefault("_args", {})[cache[key].p.key()] = (name, vs)
        out[idx] = cache[key]
    return wrap(out, F64)



# ---------------------------------------------------------------------------------------
# promax / varimax contract stub (model-level harnesses; the kernels themselves are executed in C11)


def promax_stub(X, power=1, max_iter=1000, rtol=1e-8, compute=True):
    """contract of xeofs.linalg._numpy._rotation._promax:
         Xrot = X @ R,  R unitary (power == 1) or merely invertible (power > 1),  phi = (R^H R)^-1
    witness values come from the real routine on the witness value of X."""
    from xeofs.linalg._numpy import _rotation as rot

    if not isinstance(X, SymArray):
        return PROMAX_REAL(X, power=power, max_iter=max_iter, rtol=rtol, compute=compute)
    c = cur()
    Xo = obj(X)
    p, m = Xo.shape
    if m < 2:
        raise ValueError("Cannot rotate {:} modes (columns), but must be 2 or more.".format(m))
    cplx = reported_dtype(X).kind == "c"
    X0 = witness_or_none(X)
    r0 = _safe(PROMAX_REAL, X0, power=power, max_iter=1000, rtol=1e-10, compute=True) if X0 is not None else None
    if r0 is None:
        c.on_witness = False
        R0 = phi0 = None
    else:
        Xr0, R0, phi0 = r0
    pcache = c.caches.setdefault("promax", {})
    pkey = (_key(X), power)
    if pkey in pcache:
        return tuple(x.copy() for x in pcache[pkey])
    # the rotation matrix found for a row-permuted loading matrix is the same (the Varimax / Promax criteria
    # are sums over rows): reuse it so that both fits of a metamorphic pair share R
    rows_new = [tuple(v.p.key() if isinstance(v, Sym) else repr(v) for v in Xo[i, :]) for i in range(p)]
    for (k1, pw1), (Xr1, R1, phi1) in list(pcache.items()):
        if pw1 != power or k1[0] != Xo.shape:
            continue
        flat = list(k1[1])
        rows_old = [tuple(flat[i * m:(i + 1) * m]) for i in range(p)]
        if sorted(map(repr, rows_old)) == sorted(map(repr, rows_new)) and len(set(map(repr, rows_old))) == p:
            c.notes.append("promax equivariance used: row permutation of an earlier loading matrix")
            return X @ R1, R1.copy(), (phi1.copy() if hasattr(phi1, "copy") else phi1)
    idn = len(pcache)
    R = sym_array((m, m), f"R{idn}", cplx, None if R0 is None else np.asarray(R0), kind="stub")
    Ro = obj(R)
    tag = f"promax#{idn}"
    if power == 1:
        for a in range(m):
            for b in range(a, m):
                t1 = Sym.of(0)
                t2 = Sym.of(0)
                for l in range(m):
                    t1 = t1 + Ro[l, a].conjugate() * Ro[l, b]
                    t2 = t2 + Ro[a, l] * Ro[b, l].conjugate()
                c.assume("eq", (t1 - (1 if a == b else 0)).p, f"{tag}: R^H R = I")
                c.assume("eq", (t2 - (1 if a == b else 0)).p, f"{tag}: R R^H = I")
        phi = np.eye(m)
        if cplx:
            phi = phi.astype(complex)
    else:
        phi = sym_array((m, m), f"phi{idn}", cplx, None if phi0 is None else np.asarray(phi0), kind="stub")
        G = np.conjugate(R).T @ R
        PG = obj(phi @ G)
        for a in range(m):
            for b in range(m):
                c.assume("eq", (PG[a, b] - (1 if a == b else 0)).p, f"{tag}: phi (R^H R) = I")
    Xrot = X @ R
    c.stub_log.append({"stub": "promax", "shape": [p, m], "power": power, "R": R, "kwargs": {"power": power, "max_iter": max_iter, "rtol": rtol, "compute": compute}})
    pcache[pkey] = (Xrot.copy(), R.copy(), phi.copy())
    return Xrot, R, phi


PROMAX_REAL = None


# ---------------------------------------------------------------------------------------
# sign convention (assume-guarantee): xeofs.utils.xarray_utils.get_deterministic_sign_multiplier
# is replaced by its contract in configurations that do not study the sign itself; the real function
# is verified against this contract by its own harness (C15, sign-convention obligations), and the
# base configurations of every property run it unstubbed.

SIGN_REAL = None


def sign_multiplier_stub(data, dim):
    import xarray as xr

    if not isinstance(data.data, SymArray) or cur().options.get("sign", "stub") != "stub":
        return SIGN_REAL(data, dim)
    c = cur()
    w = witness_or_none(data.data)
    if w is None:
        c.on_witness = False
        w = np.ones(data.shape)
    ref = SIGN_REAL(data.copy(data=w), dim)
    cache = c.caches.setdefault("sign", {})
    key = (_key(data.data), tuple(data.dims), str(dim))
    if key in cache:
        return ref.copy(data=cache[key].copy())
    idn = len(cache)
    vals = np.asarray(ref.values, dtype=float)
    sg = sym_array(vals.shape, f"sg{idn}", False, vals, kind="stub")
    for x in sg.a.flat:
        c.assume("eq", (x * x - 1).p, "sign contract: sigma^2 = 1")
    c.stub_log.append({"stub": "get_deterministic_sign_multiplier", "shape": list(vals.shape)})
    cache[key] = sg.copy()
    return ref.copy(data=sg)


# ---------------------------------------------------------------------------------------
# scipy.signal.hilbert: analytic signal, contract Re(H) == input and Im(H) == K y along the transformed axis, where K is
# the discrete Hilbert-transform matrix of that length (DFT definition, entries taken as the double-precision numbers)


def hilbert_matrix(n):
    """imaginary part of the analytic signal of the unit vectors: Im(ifft(h * fft(I)))"""
    h = np.zeros(n)
    h[0] = 1.0
    if n % 2 == 0:
        h[n // 2] = 1.0
        h[1 : n // 2] = 2.0
    else:
        h[1 : (n + 1) // 2] = 2.0
    K = np.imag(np.fft.ifft(np.fft.fft(np.eye(n), axis=0) * h[:, None], axis=0))
    K[np.abs(K) < 1e-15] = 0.0
    return K


def hilbert_stub(y, N=None, axis=-1):
    from scipy.signal import hilbert as real_hilbert

    if not isinstance(y, SymArray):
        return real_hilbert(y, N=N, axis=axis)
    c = cur()
    hcache = c.caches.setdefault("hilbert", {})
    hkey = (_key(y), axis)
    if hkey in hcache:
        return hcache[hkey].copy()
    y0 = witness_or_none(y)
    h0 = _safe(real_hilbert, y0, N=N, axis=axis) if y0 is not None else None
    if h0 is None:
        c.on_witness = False
    idn = len(hcache)
    yo = obj(y)
    out = np.empty(yo.shape, dtype=object)
    if N is None and axis in (0, -yo.ndim) and yo.ndim == 2 and yo.shape[0] <= 8:
        # exact linear model of the routine (small lengths): H = y + i K y
        K = hilbert_matrix(yo.shape[0])
        for j in range(yo.shape[0]):
            for col in range(yo.shape[1]):
                acc = Poly.const(0)
                for k_ in range(yo.shape[0]):
                    if K[j, k_] != 0.0:
                        acc = acc + Sym.of(yo[k_, col]).p * Poly.const(Fraction(float(K[j, k_])))
                out[j, col] = Sym(Sym.of(yo[j, col]).p + Poly.I() * acc)
        c.stub_log.append({"stub": "scipy.signal.hilbert", "shape": list(yo.shape), "model": "linear map y + i K y (K = discrete Hilbert matrix in double precision)"})
        hcache[hkey] = SymArray(out.copy(), C128)
        return SymArray(out, C128)
    for idx in np.ndindex(*yo.shape):
        im = c.new_var(f"hil{idn}" + "".join(f"_{i}" for i in idx), "stub", None if h0 is None else float(np.imag(h0[idx])), "imaginary part of the analytic signal")
        out[idx] = Sym(Sym.of(yo[idx]).p + Poly.I() * im)
    c.stub_log.append({"stub": "scipy.signal.hilbert", "shape": list(yo.shape)})
    hcache[hkey] = SymArray(out.copy(), C128)
    return SymArray(out, C128)


# ---------------------------------------------------------------------------------------
# numpy proxy for modules that build arrays with np.empty(...)/np.array([...]) and then fill them with computed values
# (xeofs.single.pop): uninitialised / literal arrays must be able to hold symbolic entries


class NumpyProxy:
    def __getattr__(self, name):
        return getattr(np, name)

    def empty(self, shape, dtype=float, **kw):
        from .ctx import active

        if not active():
            return np.empty(shape, dtype=dtype, **kw)
        a = np.empty(shape, dtype=object)
        a[...] = float("nan")
        return SymArray(a, C128 if np.dtype(dtype).kind == "c" else F64)

    def array(self, x, *a, **k):
        has = [False]

        def un(v):
            if isinstance(v, SymArray):
                has[0] = True
                return v.a
            if isinstance(v, (list, tuple)):
                return [un(t) for t in v]
            return v

        y = un(x)
        if not has[0]:
            return np.array(x, *a, **k)
        cplx = any(isinstance(t, Sym) and t.p.has_I() for t in np.array(y, dtype=object).flat)
        return SymArray(np.array(y, dtype=object), C128 if cplx else F64)


# ---------------------------------------------------------------------------------------
# symmetric eigen-problems (xeofs.multi.cca)


@implements(np.linalg.eigvalsh)
def _np_eigvalsh(A, UPLO="L"):
    """ascending eigenvalues of a Hermitian matrix: fresh symbols with  sum(w) == trace(A)  and ordering;
    with the configuration assumption 'hermitian_psd_inputs' additionally  w_min >= 0"""
    c = cur()
    Ao = obj(A)
    n = Ao.shape[0]
    cache = c.caches.setdefault("eigvalsh", {})
    key = _key(A)
    if key in cache:
        return cache[key].copy()
    A0 = witness_or_none(A)
    w0 = _safe(np.linalg.eigvalsh, A0) if A0 is not None else None
    if w0 is None:
        c.on_witness = False
    w = sym_array((n,), f"ev{len(cache)}", False, w0, kind="stub")
    wo = obj(w)
    tr = Sym.of(0)
    sw = Sym.of(0)
    for i in range(n):
        tr = tr + Ao[i, i]
        sw = sw + wo[i]
    c.assume("eq", (sw - tr).p.real(), "eigvalsh: sum of eigenvalues == trace")
    for i in range(n - 1):
        c.assume("ge", (wo[i + 1] - wo[i]).p, "eigvalsh: ascending")
    if c.options.get("eigvalsh_psd"):
        c.assume("ge", wo[0].p, "eigvalsh: PSD input [configuration assumption]")
    c.stub_log.append({"stub": "np.linalg.eigvalsh", "shape": [n, n]})
    cache[key] = w.copy()
    return w


def eigh_stub(a, b=None, subset_by_index=None, **kw):
    """scipy.linalg.eigh(a, b, subset_by_index=[lo, hi]): generalised symmetric-definite problem
    a Z = b Z diag(w),  Z^T b Z = I,  w ascending (the selected sub-range)"""
    from scipy.linalg import eigh as real_eigh

    if not isinstance(a, SymArray) and not isinstance(b, SymArray):
        return real_eigh(a, b, subset_by_index=subset_by_index, **kw)
    c = cur()
    Ao = obj(a)
    p = Ao.shape[0]
    Bo = obj(b) if b is not None else None
    lo, hi = (0, p - 1) if subset_by_index is None else subset_by_index
    k = hi - lo + 1
    a0 = witness_or_none(a)
    b0 = witness_or_none(b) if b is not None else None
    r0 = _safe(real_eigh, a0, b0, subset_by_index=subset_by_index) if a0 is not None and (b is None or b0 is not None) else None
    if r0 is None:
        c.on_witness = False
        w0 = Z0 = None
    else:
        w0, Z0 = r0
    idn = len(c.caches.setdefault("eigh", {}))
    c.caches["eigh"][idn] = True
    a_al = alias_entries(a, "eigh")
    b_al = alias_entries(b, "eigh") if b is not None else None
    Ao = obj(a_al)
    Bo = obj(b_al) if b is not None else None
    w = sym_array((k,), f"gw{idn}", False, w0, kind="stub")
    Z = sym_array((p, k), f"gz{idn}", False, Z0, kind="stub")
    wo, Zo = obj(w), obj(Z)
    for i in range(p):
        for m_ in range(k):
            lhs = Sym.of(0)
            rhs = Sym.of(0)
            for j in range(p):
                lhs = lhs + Ao[i, j] * Zo[j, m_]
                rhs = rhs + (Bo[i, j] if Bo is not None else (1 if i == j else 0)) * Zo[j, m_]
            c.assume("eq", (lhs - rhs * wo[m_]).p, f"eigh#{idn}: a Z = b Z diag(w)")
    for m1 in range(k):
        for m2 in range(m1, k):
            t = Sym.of(0)
            for i in range(p):
                for j in range(p):
                    t = t + Zo[i, m1] * (Bo[i, j] if Bo is not None else (1 if i == j else 0)) * Zo[j, m2]
            c.assume("eq", (t - (1 if m1 == m2 else 0)).p, f"eigh#{idn}: Z^T b Z = I")
    for m_ in range(k - 1):
        c.assume("ge", (wo[m_ + 1] - wo[m_]).p, f"eigh#{idn}: ascending")
    c.stub_log.append({"stub": "scipy.linalg.eigh", "shape": [p, p], "subset": [lo, hi]})
    return w, Z


# ---------------------------------------------------------------------------------------
# np.vectorize (used by xarray.apply_ufunc(vectorize=True)) converts its arguments with asanyarray: loop here instead


_REAL_VECTORIZE = np.vectorize


class SymVectorize:
    def __init__(self, pyfunc, otypes=None, doc=None, excluded=None, cache=False, signature=None):
        self.pyfunc, self.signature = pyfunc, signature
        self._real = _REAL_VECTORIZE(pyfunc, otypes=otypes, doc=doc, excluded=excluded, cache=cache, signature=signature)

    def __call__(self, *args, **kwargs):
        if not any(isinstance(a, SymArray) for a in args):
            return self._real(*args, **kwargs)
        if self.signature is None:
            raise EngineError("np.vectorize without signature on symbolic data")
        ins, outs = self.signature.split("->")
        in_core = [len([x for x in t.strip("()").split(",") if x]) for t in ins.split("),") if True]
        in_core = [len([x for x in t.replace("(", "").replace(")", "").split(",") if x.strip()]) for t in ins.replace(" ", "").split("),")]
        n_out = len([t for t in outs.replace(" ", "").split("),")])
        arrs = [a if isinstance(a, SymArray) else np.asarray(a) for a in args]
        loop_shapes = [a.shape[: a.ndim - nc] for a, nc in zip(arrs, in_core)]
        loop = np.broadcast_shapes(*loop_shapes) if loop_shapes else ()
        results = {}
        for idx in np.ndindex(*loop):
            call = []
            for a, nc, ls in zip(arrs, in_core, loop_shapes):
                ii = tuple(i if s != 1 else 0 for i, s in zip(idx[len(loop) - len(ls):], ls))
                call.append(a[ii] if ii else a)
            results[idx] = self.pyfunc(*call, **kwargs)
        if not loop:
            r = results[()]
            return r
        first = results[next(iter(results))]
        if n_out == 1:
            fo = obj(first) if isinstance(first, (SymArray, np.ndarray)) else None
            shape = loop + (fo.shape if fo is not None else ())
            out = np.empty(shape, dtype=object)
            for idx, r in results.items():
                out[idx] = obj(r) if isinstance(r, (SymArray, np.ndarray)) else (r.a[()] if isinstance(r, SymArray) else r)
            for idx in np.ndindex(*shape):
                v = out[idx]
                if isinstance(v, SymArray):
                    out[idx] = v.a[()]
            return wrap(out)
        raise EngineError("np.vectorize with several outputs on symbolic data")

# ---------------------------------------------------------------------------------------
# installation: module-attribute patches for names that xeofs modules imported directly


def _statsmodels_shim():
    """xeofs.cross refuses to construct without `statsmodels`; no property needs it"""
    if "statsmodels" in sys.modules:
        return
    try:
        import statsmodels  # noqa

        return
    except ImportError:
        pass
    m = types.ModuleType("statsmodels")
    m.__path__ = []
    st = types.ModuleType("statsmodels.stats")
    st.__path__ = []
    mt = types.ModuleType("statsmodels.stats.multitest")

    def multipletests(*a, **k):
        raise NotImplementedError("statsmodels shim: multipletests is not available in this sandbox")

    mt.multipletests = multipletests
    st.multitest = mt
    m.stats = st
    sys.modules["statsmodels"] = m
    sys.modules["statsmodels.stats"] = st
    sys.modules["statsmodels.stats.multitest"] = mt


_statsmodels_shim()


@contextlib.contextmanager
def installed(promax=True):
    """patch the names xeofs modules bound at import time"""
    import xeofs.linalg.decomposer as dec

    saved = []

    def patch(mod, name, new):
        saved.append((mod, name, getattr(mod, name)))
        setattr(mod, name, new)

    patch(dec, "randomized_svd", randomized_svd_stub)
    patch(dec, "complex_svd", svds_stub)
    try:
        import xeofs.linalg._numpy._svd as nsvd

        patch(nsvd, "randomized_svd", randomized_svd_stub)
        patch(nsvd, "complex_svd", svds_stub)
    except Exception:
        pass
    global SIGN_REAL
    import xeofs.utils.xarray_utils as xu

    if SIGN_REAL is None:
        SIGN_REAL = xu.get_deterministic_sign_multiplier
    for modname in ("xeofs.linalg.decomposer", "xeofs.single.eof_rotator", "xeofs.cross.cpcca_rotator"):
        try:
            patch(importlib.import_module(modname), "get_deterministic_sign_multiplier", sign_multiplier_stub)
        except Exception:
            pass
    patch(np, "vectorize", SymVectorize)
    # numpy converts xarray objects with np.asarray before it dispatches: unwrap them here so that a tolerance comparison on a
    # labelled symbolic array reaches the exact handler (the result is a plain array, as with real numpy)
    import xarray as _xr

    def _unwrapping(real):
        def f(a, b, *args, **kw):
            a2 = a.data if isinstance(a, (_xr.DataArray, _xr.Variable)) else a
            b2 = b.data if isinstance(b, (_xr.DataArray, _xr.Variable)) else b
            return real(a2, b2, *args, **kw)

        f.__name__ = real.__name__
        return f

    patch(np, "isclose", _unwrapping(np.isclose))
    patch(np, "allclose", _unwrapping(np.allclose))
    try:
        import xeofs.multi.cca as mcca

        patch(mcca, "eigh", eigh_stub)
    except Exception:
        pass
    try:
        import xeofs.single.pop as popmod

        patch(popmod, "np", NumpyProxy())
    except Exception:
        pass
    try:
        import xeofs.utils.hilbert_transform as ht

        patch(ht, "hilbert", hilbert_stub)
    except Exception:
        pass
    if promax:
        global PROMAX_REAL
        import xeofs.linalg.rotation as rotmod
        import xeofs.linalg._numpy._rotation as nrot

        PROMAX_REAL = nrot._promax
        patch(rotmod, "_promax", promax_stub)
    try:
        yield
    finally:
        for mod, name, old in reversed(saved):
            setattr(mod, name, old)


@contextlib.contextmanager
def recorders(B):
    """float mode: record the keyword arguments that reach the randomised solvers (results untouched)"""
    import xeofs.linalg.decomposer as dec
    import xeofs.linalg._numpy._svd as nsvd

    B.solver_calls = []
    saved = []

    def wrap(mod, name, label):
        real = getattr(mod, name)

        def w(M, *a, **k):
            kw = dict(k)
            if a:
                kw["n_components" if label == "randomized_svd" else "k"] = a[0]
            B.solver_calls.append({"stub": label, "kwargs": kw})
            return real(M, *a, **k)

        w.__name__ = getattr(real, "__name__", name)
        saved.append((mod, name, real))
        setattr(mod, name, w)

    for mod in (dec, nsvd):
        wrap(mod, "randomized_svd", "randomized_svd")
        wrap(mod, "complex_svd", "svds")
    try:
        yield
    finally:
        for mod, name, real in reversed(saved):
            setattr(mod, name, real)
