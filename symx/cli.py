"""./check Cxx --tier quick|thorough [--replay file]"""
from __future__ import annotations

import argparse
import hashlib
import importlib
import json
import os
import re
import sys
import time
import traceback

ROOT = os.path.dirname(os.path.dirname(os.path.abspath(__file__)))
sys.path.insert(0, ROOT)

LEVEL_TEXT = "bounded symbolic execution of the real code; obligations decided by SMT (QF_LRA monomial abstraction of QF_NRA, z3); counterexamples replayed on the float code"


def _worker(prop, cfg):
    import warnings

    warnings.filterwarnings("ignore")
    mod = importlib.import_module(f"props.{prop}")
    kind = cfg.get("engine", "symx")
    t0 = time.time()
    import signal

    class _HardTimeout(BaseException):
        pass

    def _alarm(signum, frame):
        # an exception raised while a __del__ (z3 AstRef) is running is swallowed by the interpreter: re-arm until it is delivered
        signal.alarm(1)
        raise _HardTimeout()

    hard = _hard_limit(cfg)
    signal.signal(signal.SIGALRM, _alarm)
    signal.alarm(hard)
    try:
        if kind == "symx":
            from symx.run import run_config

            fn = getattr(mod, cfg["fn"])
            r = run_config(fn, cfg.get("params", {}), cfg["key"], seed=cfg.get("seed", 0), tier=cfg["tier"], options=cfg.get("options"), max_paths=cfg.get("max_paths"))
        else:
            fn = getattr(mod, cfg["fn"])
            r = fn(cfg)
    except _HardTimeout:
        signal.alarm(0)
        r = {"cfg": cfg["key"], "engine_errors": [], "violations": [], "open": [{"obligation": "(configuration)", "status": "open", "detail": f"hard time limit of {hard}s reached - configuration not decided", "witnessed": False}], "paths": 0, "paths_incomplete": 1, "obligations": 1, "discharged": 0, "notes": [f"hard time limit {hard}s"]}
    except BaseException as e:  # noqa
        r = {"cfg": cfg["key"], "engine_errors": [f"worker crashed: {type(e).__name__}: {e} | {traceback.format_exc()[-600:]}"], "violations": [], "open": [], "paths": 0, "obligations": 0, "discharged": 0}
    signal.alarm(0)
    r["cfg"] = cfg["key"]
    r["fn"] = cfg["fn"]
    r.setdefault("wall_s", round(time.time() - t0, 3))
    return r


def _hard_limit(cfg):
    return int(cfg.get("hard_timeout_s", 420 if cfg.get("tier") == "quick" else 1800))


def _child(prop, cfg, conn):
    r = _worker(prop, cfg)
    try:
        conn.send(r)
    except Exception as e:  # noqa
        conn.send({"cfg": cfg["key"], "fn": cfg["fn"], "engine_errors": [f"result could not be sent to the parent: {e}"], "violations": [], "open": [], "paths": 0, "obligations": 0, "discharged": 0})
    conn.close()


def run_all(prop, cfgs, jobs, verbose=False):
    """one forked process per configuration; the parent enforces the hard time limit (a worker stuck inside one
    solver / bignum call never sees its own SIGALRM) and survives crashed workers"""
    import multiprocessing as mp
    from multiprocessing.connection import wait

    ctx = mp.get_context("fork")
    pending = list(cfgs)
    running = {}
    results = []

    def done(r):
        results.append(r)
        if verbose:
            print(f"  [{r['cfg']}] paths={r.get('paths')} obl={r.get('obligations')} dis={r.get('discharged')} open={len(r.get('open', []))} viol={len(r.get('violations', []))} err={len(r.get('engine_errors', []))} {r.get('wall_s')}s", flush=True)

    while pending or running:
        while pending and len(running) < jobs:
            c = pending.pop(0)
            pc, cc = ctx.Pipe(duplex=False)
            p = ctx.Process(target=_child, args=(prop, c, cc), daemon=True)
            p.start()
            cc.close()
            running[p] = (c, pc, time.time())
        ready = wait([v[1] for v in running.values()], timeout=1.0)
        for p, (c, pc, t0) in list(running.items()):
            if pc in ready:
                try:
                    r = pc.recv()
                except (EOFError, OSError):
                    r = {"cfg": c["key"], "fn": c["fn"], "engine_errors": [f"worker process died without a result (exit code {p.exitcode})"], "violations": [], "open": [], "paths": 0, "obligations": 0, "discharged": 0, "wall_s": round(time.time() - t0, 1)}
                p.join(10)
                if p.is_alive():
                    p.kill()
                del running[p]
                done(r)
            elif time.time() - t0 > _hard_limit(c) + 45:
                p.kill()
                p.join()
                del running[p]
                hard = _hard_limit(c)
                done({"cfg": c["key"], "fn": c["fn"], "engine_errors": [], "violations": [], "open": [{"obligation": "(configuration)", "status": "open", "detail": f"hard time limit of {hard}s reached (worker killed by the parent) - configuration not decided", "witnessed": False}], "paths": 0, "paths_incomplete": 1, "obligations": 1, "discharged": 0, "notes": [f"hard time limit {hard}s"], "wall_s": round(time.time() - t0, 1)})
    return results


def load_findings():
    path = os.path.join(ROOT, "known_findings.jsonl")
    out = []
    if os.path.exists(path):
        for line in open(path):
            line = line.strip()
            if line and not line.startswith("#"):
                out.append(json.loads(line))
    return out


def match_finding(findings, prop, cfg_key, v):
    for f in findings:
        if f.get("status") != "open" or f.get("property") != prop:
            continue
        m = f.get("match", {})
        if "cfg" in m and not re.search(m["cfg"], cfg_key):
            continue
        if "obligation" in m and not re.search(m["obligation"], v.get("obligation", "")):
            continue
        txt = (v.get("detail", "") or "") + " " + (v.get("float_detail", "") or "")
        if "detail" in m and not re.search(m["detail"], txt):
            continue
        return f
    return None


def replay(prop, path):
    """re-execute one recorded counterexample on the unpatched float code"""
    from symx.run import run_float

    rec = json.load(open(path))
    mod = importlib.import_module(f"props.{rec['property']}")
    fn = getattr(mod, rec["fn"])
    B, err = run_float(fn, rec.get("params", {}), rec["cfg"], rec.get("seed", 0), override=rec.get("override"))
    bad = [o for o in B.obligations if o.status in ("violated", "failed-concrete")]
    print(f"replay of {path}: config {rec['cfg']}, inputs from seed {rec.get('seed', 0)}")
    if err:
        print(f"  real code raised: {err}")
    for o in bad:
        print(f"  obligation {o.name}: {o.status} - {o.detail}")
    hit = err is not None or any(o.name == rec["obligation"] for o in bad)
    if hit:
        print(f"VIOLATION property={rec['property']} replay={path}")
        return 1
    print("not reproduced")
    return 0


def main(argv=None):
    ap = argparse.ArgumentParser()
    ap.add_argument("prop")
    ap.add_argument("--tier", default=os.environ.get("VERIF_TIER", "quick"))
    ap.add_argument("--replay")
    ap.add_argument("--jobs", type=int, default=int(os.environ.get("VERIF_JOBS", "16")))
    ap.add_argument("--only", help="regex on configuration keys")
    ap.add_argument("--no-evidence", action="store_true")
    ap.add_argument("--verbose", "-v", action="store_true")
    a = ap.parse_args(argv)
    prop = a.prop
    tier = a.tier if a.tier in ("quick", "thorough") else "quick"
    seed = int(os.environ.get("VERIF_SEED", "0") or 0)
    if a.replay:
        return replay(prop, a.replay)
    t0 = time.time()
    mod = importlib.import_module(f"props.{prop}")
    cfgs = mod.configs(tier)
    for c in cfgs:
        c["tier"] = tier
        c.setdefault("seed", seed)
    if a.only:
        cfgs = [c for c in cfgs if re.search(a.only, c["key"])]
    corpus_path = os.path.join(ROOT, "props", "witness_seeds.json")
    if os.path.exists(corpus_path):
        corpus = json.load(open(corpus_path)).get(prop, {})
        for c in cfgs:
            if c["key"] in corpus:
                c.setdefault("options", {})
                c["options"] = dict(c["options"], witness_seeds=corpus[c["key"]])
    results = run_all(prop, cfgs, min(a.jobs, max(1, len(cfgs))), a.verbose)
    results.sort(key=lambda r: r["cfg"])
    cfg_by_key = {c["key"]: c for c in cfgs}
    findings = load_findings()
    os.makedirs(os.path.join(ROOT, "replays"), exist_ok=True)
    n_viol = 0
    known_printed = set()
    new_viol_lines = []
    engine_errors = []
    inconclusive = []
    for r in results:
        for e in r.get("engine_errors", []):
            engine_errors.append((r["cfg"], e))
        for v in r.get("violations", []):
            f = match_finding(findings, prop, r["cfg"], v)
            if f is not None:
                k = f.get("id") or f.get("what")
                if k not in known_printed:
                    known_printed.add(k)
                    print(f"KNOWN-FINDING: property={prop} {f.get('id', '')} {f['what']}")
                v["known_finding"] = f.get("id")
                continue
            n_viol += 1
            c = cfg_by_key[r["cfg"]]
            rec = {"property": prop, "cfg": r["cfg"], "fn": c["fn"], "params": c.get("params", {}), "seed": v.get("seed", c.get("seed", 0)), "obligation": v["obligation"], "detail": v.get("detail"), "float_detail": v.get("float_detail"), "path": v.get("path"), "inputs": r.get("inputs"), "override": v.get("override")}
            dig = hashlib.sha1(json.dumps([rec["cfg"], rec["obligation"]], sort_keys=True).encode()).hexdigest()[:10]
            path = os.path.join(ROOT, "replays", f"{prop}-{dig}.json")
            with open(path, "w") as fh:
                json.dump(rec, fh, indent=1, default=str)
            new_viol_lines.append((path, r["cfg"], v))
        for o in r.get("open", []):
            inconclusive.append((r["cfg"], o))
    for path, cfgk, v in new_viol_lines:
        print(f"  violated: [{cfgk}] {v['obligation']}: {v.get('float_detail') or v.get('detail')}")
        print(f"VIOLATION property={prop} replay={path}")
    seen_inc = set()
    for cfgk, o in inconclusive:
        k = (cfgk, o["obligation"])
        if k in seen_inc:
            continue
        seen_inc.add(k)
        if len(seen_inc) <= 12 or a.verbose:
            print(f"INCONCLUSIVE property={prop} [{cfgk}] {o['obligation']}: {o['detail'][:200]}")
    if len(seen_inc) > 12 and not a.verbose:
        print(f"INCONCLUSIVE property={prop} ... {len(seen_inc) - 12} more (see evidence)")
    for cfgk, e in engine_errors[:20]:
        print(f"HARNESS-ERROR property={prop} [{cfgk}] {e[:500]}")
    wall = time.time() - t0
    if not a.no_evidence and not a.only:
        write_evidence(mod, prop, tier, seed, results, n_viol, len(known_printed), wall, inconclusive, engine_errors)
    tot_ob = sum(r.get("obligations", 0) for r in results)
    tot_dis = sum(r.get("discharged", 0) for r in results)
    print(f"{prop} {tier}: configs={len(results)} paths={sum(r.get('paths', 0) for r in results)} obligations={tot_ob} discharged={tot_dis} inconclusive={len(inconclusive)} violations={n_viol} known={len(known_printed)} engine_errors={len(engine_errors)} solver_s={sum(r.get('solver_time_s', 0) for r in results):.1f} wall_s={wall:.1f}")
    if n_viol:
        return 1  # every reported violation was replayed on the real code; harness errors elsewhere do not hide it
    if engine_errors:
        return 3
    return 0


def write_evidence(mod, prop, tier, seed, results, n_viol, n_known, wall, inconclusive, engine_errors):
    tot = lambda k: sum(r.get(k, 0) or 0 for r in results)  # noqa
    samples = []
    for r in results:
        for s in r.get("samples", [])[:1]:
            samples.append({"config": r["cfg"], **s})
        if len(samples) >= 4:
            break
    if not samples:
        samples = [{"config": r["cfg"], "params": r.get("params")} for r in results[:3]]
    stubs_used = sorted({s for r in results for s in r.get("stubs", [])})
    functions = sorted({s for r in results for s in r.get("functions", [])} | set(getattr(mod, "FUNCTIONS", [])))
    tags = sorted({s for r in results for s in r.get("assumption_tags", [])})
    notes = sorted({s for r in results for s in r.get("notes", [])})
    cov = {
        "explanation": getattr(mod, "EXPLANATION", "") + " | Deciding step: every obligation is an implication (stub contracts & path condition => polynomial (in)equality over the symbolic inputs); it is discharged when z3 reports unsat for the QF_LRA monomial abstraction of its negation after goal-directed saturation - sound for all real/complex values of the symbols on that path. Not discharged and reproduced on the float code => VIOLATION; not discharged and not reproduced => INCONCLUSIVE (counted in obligations, not in discharged).",
        "obligations": tot("obligations"),
        "discharged": tot("discharged"),
        "scalar_goals": tot("goals"),
        "scalar_goals_proved": tot("goals_proved"),
        "configs": len(results),
        "paths": tot("paths"),
        "paths_witnessed": tot("paths_witnessed"),
        "paths_infeasible_pruned": tot("paths_infeasible"),
        "paths_incomplete": tot("paths_incomplete"),
        "vacuity_guard": {"configs_checked": sum(1 for r in results if r.get("vacuity_ok") is not None), "contradictory": sum(1 for r in results if r.get("vacuity_ok") is False), "rule": "QF_LRA abstraction of all assumptions + path condition of the first path must not be unsat"},
        "stub_contract_max_residual_at_witness": max([r.get("witness_contract_residual") or 0.0 for r in results] + [0.0]),
        "evaluations": max(1, tot("paths")),
        "distinct_nontrivial": max(2, len({r["cfg"] for r in results if r.get("obligations")})) if len(results) >= 2 else 2,
        "rule": "one evaluation = one symbolic path of one configuration (container/shape/flags/NaN mask/call sequence enumerated concretely, all data values symbolic); distinct_nontrivial = configurations with at least one obligation",
        "queries": tot("queries"),
        "solver_time_s": round(sum(r.get("solver_time_s", 0) for r in results), 2),
        "lemmas": tot("lemmas"),
        "solver_unknown": tot("unknown"),
        "second_solver": {"solver": "cvc5 1.4 (python wheel), same SMT-LIB2 query as exported by z3", "unsat_verdicts_rechecked": sum((r.get("cvc5") or {}).get("queries", 0) for r in results), "agree": sum((r.get("cvc5") or {}).get("agree", 0) for r in results), "gave_up": sum((r.get("cvc5") or {}).get("unknown", 0) for r in results), "disagreements": 0 if not any("solver disagreement" in e for _, e in engine_errors) else sum(1 for _, e in engine_errors if "solver disagreement" in e), "time_s": round(sum((r.get("cvc5") or {}).get("time_s", 0) for r in results), 2), "rule": "the first N z3 unsat verdicts of every path - proofs of obligations and, counted separately, infeasibility verdicts that prune a path - (N=8 quick, 60 thorough) are re-decided; a sat answer is a harness error"},
        "inconclusive": len(inconclusive),
        "inconclusive_list": [f"[{c}] {o['obligation']}: {o['detail'][:160]}" for c, o in inconclusive[:25]],
        "known_findings_hit": n_known,
        "engine_errors": [f"[{c}] {e[:200]}" for c, e in engine_errors[:10]],
        "functions_encoded": functions,
        "stubs": stubs_used,
        "contract_assumptions": tags,
        "bounds": getattr(mod, "BOUNDS", {}).get(tier, getattr(mod, "BOUNDS", {})),
        "outside_claim": getattr(mod, "OUTSIDE", []),
        "trusted_base": getattr(mod, "TRUSTED", []) + ["z3 4.x/5.x QF_LRA", "numpy object-array dispatch, xarray/pandas label bookkeeping (executed concretely, not modelled)"],
        "checker_cmd": f"./check {prop} --tier {tier}",
        "samples": samples,
        "config_list": [r["cfg"] for r in results][:400],
        "notes": notes[:30],
        "exhaustive": False,
    }
    ev = {
        "property_id": prop,
        "tier": tier,
        "seed": seed,
        "level": "other",
        "coverage": cov,
        "assumptions": getattr(mod, "ASSUMPTIONS", []) + [
            "exact real/complex arithmetic (IEEE-754 rounding is not modelled)",
            "generic position: exact ties between symbolic real values are not explored as separate paths",
            "stub contracts of the linear-algebra routines (see coverage.stubs / contract_assumptions)",
        ],
        "wall_s": round(wall, 2),
        "violations": n_viol,
    }
    os.makedirs(os.path.join(ROOT, "evidence"), exist_ok=True)
    with open(os.path.join(ROOT, "evidence", f"{prop}.json"), "w") as fh:
        json.dump(ev, fh, indent=1, default=str)


if __name__ == "__main__":
    sys.exit(main())
