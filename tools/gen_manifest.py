#!/usr/bin/env python3
"""Regenerates MANIFEST.json from the table below (keeps it valid against the schema)."""
import json, os
ROOT = os.path.dirname(os.path.dirname(os.path.abspath(__file__)))
LEVEL = ("bounded symbolic execution of the real code over exact reals; every obligation is an implication between polynomial "
         "(in)equalities decided by z3 (QF_LRA monomial abstraction of QF_NRA with solver-checked lemma selection; a sample of the unsat verdicts is re-decided by cvc5); "
         "counterexample candidates - concolic witnesses, recorded witness seeds, solver-made values of scalar inputs - are replayed on the unpatched float code before VIOLATION is printed")
CLAIMED = {
 "C18": ("POP: reported eigenvalues / patterns (mapped to PC space) are the eigen-decomposition - in the order idx_modes_sorted - of the feedback matrix C1 C0^-1 that the harness builds independently from the stored PCA-reduced data (the eig stub is a function of its input, so this needs the code to hand exactly that matrix to np.linalg.eig); A p == lambda p for the reported pairs; damping_times * log|lambda| == -1 and periods * angle(lambda) == 2 pi (log / angle uninterpreted); norms^2 == variance of the coefficient series, descending on every path; transform(X_fit) == scores() (without PCA a term identity; with PCA usually decided at the witness); noise-free x_{t+1} = A x_t without centring: C1 == A_true C0. Complex-pair witnesses (damped and growing); real-eigenvalue inputs and n_pca_modes >= 3 are outside the bound", "5 C18 and 9.7"),
 "C19": ("OPA: orthogonality / equal norm of the score series, bi-orthogonality of filter patterns and OPPs, reported decorrelation time == trapezoidal lag sum of the series own autocorrelation, descending order. Only part of the obligations is discharged symbolically (three chained SVD stubs); the rest is decided at witnesses (replayed) or reported INCONCLUSIVE", "5 C19"),
 "C20": ("per bootstrap member with ENUMERATED resample index vectors (rng stubbed): variances / components equal an independent EOF of exactly those rows, scores are the projection of the original samples, orthonormal components, non-negative descending variances, non-negative alignment statistic after the sign flip, member dimension length, seed forwarded", "5 C20"),
 "C11": ("kernel: real _varimax (1-2 iterations) and _promax on symbolic loadings: R unitary, Xrot == X R / X rot_mat; model level (promax contract): reconstruction from rotated scores == reconstruction from the same k unrotated modes, descending order on every path, Varimax keeps normalised scores orthonormal and conserves summed explained variance", "5 C11"),
 "C10": ("MCA/CCA/RDA == CPCCA at alpha 1 / 0 / (0,1); Complex model on real data == real model; ExtendedEOF(embedding=1) == EOF; MCA(X,X) == EOF(X) (singular values == explained variances, patterns up to sign) - term identities on shared symbolic data, over every public result method; every constructor argument of the nine named cross-set classes reaches the general class unchanged", "5 C10"),
 "C09": ("components diagonalise the oracle fractionally whitened cross-covariance with the reported singular values on the diagonal; scores are the whitened data projected on them; singular values non-negative descending; MCA orthonormal components and total squared covariance; reported correlations are Gram correlations with unit self-correlation", "5 C09"),
 "C16": ("Whitener: covariance of whitened data == I (alpha=0), unchanged (alpha=1), K^q == C for alpha=1/q (attempted, may be inconclusive); data and pattern maps mutually inverse; T Tinv == I, T and Tinv Hermitian. PCA: orthonormal basis, transform == X V, round trip with all modes, pattern maps inverse on the retained subspace", "5 C16"),
 "C13": ("attribute codec (CrossHair over symbolic strings / bools / lists on the real functions) and rebuild-from-serialised-tree for every listed model class and codec (identity, netCDF attrs, JSON attrs, placeholders): equal parameters and term-identical components, scores, transform, inverse_transform, predict", "5 C13"),
 "C17": ("every enumerated single-fault mutation of a valid call raises on every explored path; range faults (n_modes, alpha) are symbolic so the solver covers all values; the valid variants named by the property are accepted", "5 C17"),
 "C15": ("threshold truncation keeps the smallest number of modes reaching a SYMBOLIC fraction f (or all, with warning); solver policy over symbolic n, p, n_modes; seeds and solver_kwargs reach the solver call; sign convention makes the largest-magnitude loading positive and is odd; seeds include 0; unwitnessed policy paths get solver-made witnesses", "5 C15"),
 "C07": ("pairs of fits on re-laid-out copies of one symbolic data set (transpose, feature/sample permutation, split over variables/list items, other dimension names) give equal singular values, components at each label and scores; SVD inputs verified to be permutations of each other, real sign convention executed", "5 C07"),
 "C14": ("frame step (every non-fit operation leaves all later answers, the model arrays names/attrs and the user inputs unchanged) and fit step (refit == fresh fit) - term identities for ALL values; induction over histories; operations include every accessor with default and non-default flags, weights with preprocessing flags off, second fits of EOF / Complex / Hilbert / Extended EOF, POP, rotator objects and cross-set models", "5 C14"),
 "C08": ("per-feature shifts (center), positive affine rescalings (standardize), user weights == pre-multiplied data, use_coslat == sqrt(cos lat) weights, global factor c: the two fits decompose identical (or exactly c-scaled) matrices and all outputs agree / scale as stated - for ALL values of data, shifts, scales, weights, c", "5 C08"),
 "C06": ("fit on data with fully missing rows/columns == fit on the reduced data (term identity), NaN exactly at deleted labels; every isolated-NaN mask and every mask mismatch at transform raises; cross-set NaN samples give the row-deleted pair or an error", "5 C06"),
 "C01": ("decomposed matrix == independent oracle; components orthonormal; scores orthogonal with norms s; explained variance == s^2/(n-1), descending, eigen-relation with the oracle covariance, total variance and ratios; residual orthogonal to retained modes - for ALL data values (EOF, ComplexEOF, HilbertEOF without padding, ExtendedEOF)", "5 C01"),
 "C02": ("container type, names, dims, label sets preserved and value at every label equal to the input symbol through the 2-D round trip and model accessors, over an enumerated layout space", "5 C02"),
 "C03": ("inverse_transform(scores()) == X at every label with all modes kept; transform(inverse_transform(S)) == S for an arbitrary symbolic S; normalized switches differ exactly by the norms - for ALL data/weight values within the shape bound", "5 C03"),
 "C04": ("transform(X_fit) == scores() for ALL data values, for every listed model class / alpha / power / layout within the shape bound (single-set, rotated incl. 3 re-ordered modes, cross-set with both fields and each field alone, multi-set CCA)", "5 C04"),
 "C05": ("transform of new data keeps the new labels, has no NaN, commutes with concatenation along samples and restricts to row subsets of the training scores - for ALL values", "5 C05"),
}
NOTE = {
 "default": "exact real/complex arithmetic (no rounding); contract stubs for SVD/inv/pinv/eig/promax/sign convention; shapes n<=6, p<=4, k<=3; generic position (no exact ties); configurations (container, dims, flags, NaN mask, call sequence) enumerated concretely",
}
NA = {
 "C12": "dask scheduling/laziness is a trace property of a third-party scheduler; symbolic scalars cannot flow through dask graph execution and a dask stub would assume the conclusion (DESIGN.md section 6)",
}
PENDING_REASON = "harness not finished yet in this round - not claimed (see DESIGN.md section 9)"
ALL = [f"C{i:02d}" for i in range(1, 21)]
m = {
 "version": 1,
 "setup_cmd": "./setup.sh",
 "hooks": {"guard": "XEOFS_VERIF", "enable": "no hook commits: all interception is done from the harness side (numpy __array_function__/__array_ufunc__ protocols and module-attribute patches applied inside the check process); the guard name is reserved", "baseline_off_cmd": "cd /repo && /venv/bin/python -m pytest -ra -q -p no:cacheprovider --timeout=900 --continue-on-collection-errors", "source_commits": [], "add_only": True},
 "engines": [
  {"name": "crosshair", "path": "xh/", "serves_properties": ["C13"], "kind_free_text": "CrossHair 0.0.110 (symbolic execution of Python with z3) on PEP316 conditions that call the real attribute codec"},
  {"name": "symx", "path": "symx/", "serves_properties": sorted(CLAIMED), "kind_free_text": "symbolic execution of the real Python code over exact Laurent-polynomial scalars inside a numpy duck array; obligations decided by z3 (QF_LRA over monomials, lemmas selected by saturation/reduction); candidates replayed on the float code"},
 ],
 "checks": [],
 "not_applicable": [],
 "notes": "known_findings.jsonl lists repaired (fixed:) and open findings; evidence/*.json is rewritten by every run",
}
for p in sorted(CLAIMED):
    text, ref = CLAIMED[p]
    m["checks"].append({
        "property_id": p, "quick_cmd": f"./check {p} --tier quick", "thorough_cmd": f"./check {p} --tier thorough",
        "evidence_file": f"evidence/{p}.json", "replay_cmd_template": f"./check {p} --replay {{path}}", "engine": "symx",
        "level_claimed": {"category": "other", "text": LEVEL + ". Claim: " + text, "design_ref": "DESIGN.md sections 2 and " + ref},
        "level_note": NOTE.get(p, NOTE["default"]),
        "technique": "symbolic execution of the real code + SMT (z3 QF_LRA monomial abstraction, cvc5 second opinion), solver-made / recorded witnesses, concrete replay",
    })
for p in ALL:
    if p in CLAIMED:
        continue
    m["not_applicable"].append({"property_id": p, "reason": NA.get(p, PENDING_REASON)})
json.dump(m, open(os.path.join(ROOT, "MANIFEST.json"), "w"), indent=1)
print("claimed", sorted(CLAIMED), "not claimed", [x["property_id"] for x in m["not_applicable"]])
