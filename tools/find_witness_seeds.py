"""tools/find_witness_seeds.py Cxx <cfg regex> [--tries N] [--tier quick]

Builds the witness corpus: for the matching configurations, executes the harness symbolically (no solver work) on the
concolic witness of seeds 1..N and records, per distinct decision path, the first seed that follows it. The seeds are
stored in props/witness_seeds.json and are tried first when a run leaves an obligation open on a path nobody witnessed.
They are hints: nothing depends on them for a 'holds' verdict.
"""
import argparse, importlib, json, os, re, sys, warnings
from concurrent.futures import ProcessPoolExecutor

ROOT = os.path.dirname(os.path.dirname(os.path.abspath(__file__)))
sys.path.insert(0, ROOT)


def one(args):
    prop, key, tier, seed = args
    warnings.filterwarnings("ignore")
    from symx import stubs
    from symx.ctx import Ctx, use_ctx
    from symx.harness import SymBackend
    from symx.run import TIER_OPTS, _phash

    mod = importlib.import_module(f"props.{prop}")
    cfg = [c for c in mod.configs(tier) if c["key"] == key][0]
    opts = dict(TIER_OPTS[tier])
    opts.update(cfg.get("options") or {})
    ctx = Ctx(plan=[], seed=seed, options=opts)
    B = SymBackend(ctx, key, seed, tier)
    try:
        with use_ctx(ctx), stubs.installed(), warnings.catch_warnings():
            warnings.simplefilter("ignore")
            getattr(mod, cfg["fn"])(B, **cfg.get("params", {}))
    except BaseException:  # noqa
        return seed, None
    if not ctx.on_witness:
        return seed, None
    return seed, _phash(ctx)


def main():
    ap = argparse.ArgumentParser()
    ap.add_argument("prop")
    ap.add_argument("regex")
    ap.add_argument("--tries", type=int, default=200)
    ap.add_argument("--tier", default="quick")
    a = ap.parse_args()
    mod = importlib.import_module(f"props.{a.prop}")
    keys = [c["key"] for c in mod.configs(a.tier) if re.search(a.regex, c["key"])]
    path = os.path.join(ROOT, "props", "witness_seeds.json")
    corpus = json.load(open(path)) if os.path.exists(path) else {}
    for key in keys:
        seen = {}
        with ProcessPoolExecutor(max_workers=14) as ex:
            for seed, h in ex.map(one, [(a.prop, key, a.tier, s) for s in range(1, a.tries + 1)]):
                if h is not None and h not in seen:
                    seen[h] = seed
        corpus.setdefault(a.prop, {})[key] = sorted(seen.values())
        print(f"{a.prop} [{key}]: {len(seen)} distinct witnessed paths from {a.tries} seeds -> {sorted(seen.values())}")
    with open(path, "w") as fh:
        json.dump(corpus, fh, indent=1, sort_keys=True)


if __name__ == "__main__":
    main()
