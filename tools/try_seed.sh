#!/bin/sh
# usage: tools/try_seed.sh <dir with patch.diff, demo.py> <Cxx> [tier] [extra check args]
# applies the patch to /repo, runs demo + the check, reverts. Never leaves /repo modified.
D=$1; P=$2; T=${3:-quick}; shift 3 2>/dev/null
cd /repo || exit 9
git diff --quiet || { echo "repo dirty"; exit 9; }
git apply "$D/patch.diff" || { echo "patch does not apply"; exit 9; }
echo "--- demo with patch:"; (cd /repo && PYTHONPATH=/repo timeout 600 /venv/bin/python "$D/demo.py" >/tmp/p/demo.out 2>&1; echo "demo exit=$?"; tail -2 /tmp/p/demo.out | cut -c1-300)
echo "--- check $P $T with patch:"; (cd /verif && timeout 3000 ./check $P --tier $T --no-evidence "$@" 2>&1 | grep -E "VIOLATION|violated|^$P|HARNESS|KNOWN" | cut -c1-260 | head -12)
git checkout -- . ; git status --short | head -3
echo "--- demo without patch:"; (cd /repo && PYTHONPATH=/repo timeout 600 /venv/bin/python "$D/demo.py" >/tmp/p/demo.out 2>&1; echo "demo exit=$?")
