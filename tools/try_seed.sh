#!/bin/bash
# usage: tools/try_seed.sh <seed dir with patch.diff + demo.py> <Cxx> [tier] [extra check args]
# Applies the patch to a scratch worktree of /repo (never to /repo itself), runs the demo and the check against
# that worktree (PYTHONPATH precedes the /repo entry of the overlay .pth), then removes the worktree.
D=$(readlink -f "$1"); P=$2; T=${3:-quick}; shift 3 2>/dev/null
W=$(mktemp -d /tmp/seedwt.XXXXXX)
trap 'git -C /repo worktree remove --force "$W" >/dev/null 2>&1; rm -rf "$W"; git -C /repo worktree prune' EXIT
git -C /repo worktree add --detach "$W" HEAD >/dev/null 2>&1 || { echo "cannot create worktree"; exit 9; }
# carry uncommitted changes of /repo's working tree over (checks are about the working tree)
git -C /repo diff HEAD | git -C "$W" apply --allow-empty 2>/dev/null
echo "--- demo without patch:"; (cd "$W" && PYTHONPATH="$W" timeout 600 /venv/bin/python "$D/demo.py" >/dev/null 2>&1; echo "demo exit=$?")
git -C "$W" apply "$D/patch.diff" || { echo "PATCH DOES NOT APPLY"; exit 9; }
echo "--- demo with patch:"; (cd "$W" && PYTHONPATH="$W" timeout 600 /venv/bin/python "$D/demo.py" >/dev/null 2>&1; echo "demo exit=$?")
echo "--- check $P $T with patch:"
cd /verif && PYTHONPATH="$W" timeout 3000 ./check "$P" --tier "$T" --no-evidence "$@" 2>&1 | grep -E "VIOLATION|violated|KNOWN-FINDING|HARNESS-ERROR|$P $T:" | cut -c1-260 | head -20
echo "check exit=${PIPESTATUS[0]}"
