#!/bin/bash
# usage: tools/run_all.sh quick|thorough [log]   - runs every claimed check in turn, prints exit code and wall time
T=${1:-quick}; LOG=${2:-/dev/stdout}
cd "$(dirname "$0")/.."
for p in $(python3 -c "import json; print(' '.join(x['property_id'] for x in json.load(open('MANIFEST.json'))['checks']))"); do
  s=$(date +%s)
  ./check $p --tier $T > /tmp/run_all_$p.$T.log 2>&1; e=$?
  echo "$p exit=$e wall=$(( $(date +%s) - s ))s $(grep -E "^$p $T:" /tmp/run_all_$p.$T.log | cut -c1-200)" >> $LOG
done
