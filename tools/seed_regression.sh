#!/bin/bash
# re-evaluates every archived seeded change against the current checks (scratch worktrees; /repo untouched)
# usage: tools/seed_regression.sh [logfile]   -> one line per change: "<id> demo exit=0 demo exit=1 check exit=1" when all is as it should be
cd "$(dirname "$0")/.."
LOG=${1:-/dev/stdout}
run() { d=$1; p=${d%%-*}; out=$(tools/try_seed.sh seeded/$d $p quick 2>&1 | grep -E "check exit|PATCH DOES NOT APPLY|demo exit" | tr '\n' ' '); echo "$d $out" >> "$2"; }
export -f run
ls seeded | xargs -P 4 -I{} bash -c "run {} $LOG"
