"""C17 - unusable input is rejected with an error, never answered with numbers."""
from __future__ import annotations

import numpy as np
import xarray as xr

from .common import *  # noqa
from . import models as M

EXPLANATION = (
    "Single-fault mutations of a valid call are executed on symbolic data; obligation: the mutated call raises on EVERY explored path (a returned result is a "
    "violation, replayed on the float code). Range faults use symbolic scalars so that the solver covers all values: n_modes a symbolic integer <= 0 or > rank, "
    "a symbolic float outside (0, 1], alpha a symbolic float < 0. Valid variants named by the property (alpha > 1, score arrays with extra dimensions) must be accepted."
)
FUNCTIONS = ["validate_input_type", "convert_to_dim_type", "sanity_check_n_modes", "Stacker._sanity_check / _validate_transform_*", "Preprocessor.transform (item count)", "Sanitizer._check_input_coords", "Decomposer.fit (rank check)", "CPCCA._compute_cross_covariance_numpy (sample count)", "Whitener.__init__ (alpha)", "Scaler.transform"]
BOUNDS = {"quick": {"faults": "~45 fault kinds on EOF / CPCCA with 4x2..4x(2x2) data", "scalars": "symbolic over their whole range"}, "thorough": {"faults": "same plus rotators and Dataset/list variants"}}
OUTSIDE = ["faults that need two simultaneous mutations"]
TRUSTED = []
ASSUMPTIONS = []


def _fit_eof(B, layout="3d", n=4, p=4, k=2, rotated=False, **kw):
    X, dim, fd = M.make_input(B, layout, n, p, False, {})
    m = M.single("EOF", n_modes=k, solver="full", **kw).fit(X, dim)
    if rotated:
        m = M.rotate(m, n_modes=2, power=1)
    return m, X


def h_fit_fault(B, fault="numpy-input"):
    X = da3d(B, "x", 4, 2, 2)
    mk = lambda **kw: M.single("EOF", n_modes=2, solver="full", **kw)  # noqa
    B.covers("fit-time validation")
    calls = {
        "numpy-input": lambda: mk().fit(np.ones((4, 3)), "time"),
        "list-of-numpy": lambda: mk().fit([np.ones((4, 3))], "time"),
        "none-input": lambda: mk().fit(None, "time"),
        "string-input": lambda: mk().fit("data", "time"),
        "unknown-sample-dim": lambda: mk().fit(X, "nope"),
        "empty-sample-dims": lambda: mk().fit(X, ()),
        # the same dimension faults with centring off: the refusal must not be a side effect of Scaler's X.mean(dim)
        "unknown-sample-dim|center=False": lambda: mk(center=False).fit(X, "nope"),
        "one-unknown-of-two-sample-dims": lambda: mk().fit(X, ("time", "member")),
        "one-unknown-of-two-sample-dims|center=False": lambda: mk(center=False).fit(X, ("time", "member")),
        "one-unknown-of-two-sample-dims|list|center=False": lambda: mk(center=False).fit(X, ["member", "time"]),
        "empty-sample-dims|center=False": lambda: mk(center=False).fit(X, ()),
        "all-dims-are-sample-dims|center=False": lambda: mk(center=False).fit(X, ("time", "lat", "lon")),
        "all-dims-are-sample-dims": lambda: mk().fit(X, ("time", "lat", "lon")),
        "numpy-weights": lambda: mk().fit(X, "time", weights=np.ones((2, 2))),
        "n_modes>rank": lambda: M.single("EOF", n_modes=5, solver="full").fit(X, "time"),
        # the same request on the other solver routes: the refusal must not live in the exact branch only
        "n_modes>rank|solver=randomized": lambda: M.single("EOF", n_modes=5, solver="randomized").fit(X, "time"),
        "n_modes>rank|solver=auto": lambda: M.single("EOF", n_modes=5, solver="auto").fit(X, "time"),
        "n_modes>rank|ComplexEOF|solver=randomized": lambda: M.single("ComplexEOF", n_modes=5, solver="randomized").fit(X, "time"),
        "n_modes=0": lambda: M.single("EOF", n_modes=0, solver="full").fit(X, "time"),
        "n_modes=-1": lambda: M.single("EOF", n_modes=-1, solver="full").fit(X, "time"),
        "n_modes=1.5": lambda: M.single("EOF", n_modes=1.5, solver="full").fit(X, "time"),
        "n_modes='a'": lambda: M.single("EOF", n_modes="a", solver="full").fit(X, "time"),
        "n_modes=None": lambda: M.single("EOF", n_modes=None, solver="full").fit(X, "time"),
        "unknown-solver": lambda: M.single("EOF", n_modes=2, solver="exact").fit(X, "time"),
        "unknown-solver-empty": lambda: M.single("EOF", n_modes=2, solver="").fit(X, "time"),
    }
    if fault.startswith("n_modes=numpy"):
        # a numpy scalar is either refused or means what the builtin number means - nothing in between
        val = {"n_modes=numpy.int64(2)": np.int64(2), "n_modes=numpy.int32(1)": np.int32(1), "n_modes=numpy.float64(2.0)": np.float64(2.0)}[fault]
        try:
            m = M.single("EOF", n_modes=val, solver="full").fit(X, "time")
        except (TypeError, ValueError):
            B.check(f"fit with '{fault}': refused", True, "")
            return
        got = m.data["components"].sizes["mode"]
        B.check(f"fit with '{fault}': accepted, so it must keep exactly {int(val)} modes", isinstance(val, np.integer) and got == int(val), f"{got} modes returned")
        return
    B.raises(f"fit with fault '{fault}' raises", calls[fault])


def h_nmodes_symbolic(B, kind="int<=0"):
    X = da2d(B, "x", 4, 3)
    B.covers("sanity_check_n_modes", "Decomposer.fit (rank check)")
    if kind == "int<=0":
        k = B.sym_int("k", -50, 0)
    elif kind == "int>rank":
        k = B.sym_int("k", 4, 60)
    elif kind == "float>1":
        k = B.sym_float("k", 1.0000001, 50.0)
    elif kind == "float<=0":
        k = B.sym_float("k", -50.0, 0.0)
    B.raises(f"n_modes {kind} (symbolic) is refused at construction or fit", lambda: M.single("EOF", n_modes=k, solver="full").fit(X, "time"))


def h_alpha(B, kind="negative"):
    X = da2d(B, "x", 4, 2, feat="x")
    Y = da2d(B, "y", 4, 2, feat="y")
    B.covers("Whitener.__init__ (alpha)")
    if kind == "negative":
        a = B.sym_float("alpha", -50.0, -1e-9)
        B.raises("alpha < 0 (symbolic) is refused", lambda: M.cross("CPCCA", n_modes=2, alpha=a, use_pca=False).fit(X, Y, "time"))
    else:
        r = B.completes("alpha > 1 is accepted (means no whitening)", lambda: M.cross("CPCCA", n_modes=2, alpha=1.7, use_pca=False).fit(X, Y, "time"))
        if r is not None:
            ref = M.cross("CPCCA", n_modes=2, alpha=1.0, use_pca=False).fit(X, Y, "time")
            B.eq("alpha > 1 behaves as alpha = 1", r.data["singular_values"], ref.data["singular_values"])


def h_transform_fault(B, fault="missing-feature-dim", layout="3d", restored=False, rotated=False):
    model, X = _fit_eof(B, layout, rotated=rotated)
    if restored:
        model = type(model).deserialize(model.serialize())
    B.covers("transform-time validation")
    n2 = 2

    def new(dims, coords, nm="xn"):
        return xr.DataArray(B.array(tuple(len(coords[d]) for d in dims), nm), dims=dims, coords={d: coords[d] for d in dims}, name="v_x")

    c = {"time": [100, 101], "lat": list(X["lat"].values), "lon": list(X["lon"].values)}
    if fault == "missing-feature-dim":
        bad = new(("time", "lat"), c)
    elif fault == "extra-dim":
        bad = new(("time", "lat", "lon", "z"), dict(c, z=[1, 2]))
    elif fault == "renamed-dim":
        bad = new(("time", "lat", "x"), dict(c, x=c["lon"]))
    elif fault == "shifted-feature-coordinate":
        bad = new(("time", "lat", "lon"), dict(c, lon=[v + 1 for v in c["lon"]]))
    elif fault == "reordered-coordinate-different-values":
        bad = new(("time", "lat", "lon"), dict(c, lat=[c["lat"][1], 99.0]))
    elif fault == "shorter-feature-dim":
        bad = new(("time", "lat", "lon"), dict(c, lon=c["lon"][:1]))
    elif fault == "numpy-input":
        bad = np.ones((2, 2, 2))
    elif fault == "dataset-instead-of-dataarray":
        bad = xr.Dataset({"A": new(("time", "lat", "lon"), c)})
    elif fault == "list-of-two":
        bad = [new(("time", "lat", "lon"), c), new(("time", "lat", "lon"), c, "xm")]
    elif fault == "no-sample-dim":
        bad = new(("lat", "lon"), c)
    else:
        raise ValueError(fault)
    if fault == "dataset-instead-of-dataarray":
        _raises_or_equals(B, fault, model, bad, bad["A"])
    else:
        B.raises(f"transform with fault '{fault}' raises", lambda: model.transform(bad))


def _raises_or_equals(B, fault, model, bad, equivalent):
    """a container-type mismatch may be refused, or interpreted - then the answer must be the one of the equivalent
    object of the fitted type (never different numbers)"""
    from symx.ctx import EngineError

    try:
        got = model.transform(bad)
    except EngineError:
        raise
    except Exception:
        B.check(f"transform with fault '{fault}' is refused", True)
        return
    B.eq(f"transform with fault '{fault}' is interpreted as the equivalent object", got, model.transform(equivalent))


def h_transform_fault_containers(B, fault="dropped-variable"):
    B.covers("Preprocessor.transform (item count)", "Stacker._validate_transform_data_type")
    if fault in ("dropped-variable", "dataarray-instead-of-dataset"):
        model, X = _fit_eof(B, "dataset")
        Xn = xr.Dataset({v: da2d(B, f"n{v}", 2, 2, scoords=[100, 101]) for v in X.data_vars})
        bad = Xn[["A"]] if fault == "dropped-variable" else Xn["A"]
    elif fault in ("wrong-list-length", "single-item-for-list"):
        model, X = _fit_eof(B, "list")
        good = [da2d(B, "na", 2, 2, scoords=[100, 101]), da2d(B, "nb", 2, 2, scoords=[100, 101], feat="y")]
        bad = good[:1] if fault == "wrong-list-length" else good[0]
    if fault == "dataarray-instead-of-dataset":
        B.raises(f"transform with fault '{fault}' raises", lambda: model.transform(bad))
    else:
        B.raises(f"transform with fault '{fault}' raises", lambda: model.transform(bad))


def h_scores_fault(B, fault="unknown-mode"):
    model, X = _fit_eof(B, "2d", p=3)
    B.covers("inverse_transform validation")
    S = xr.DataArray(B.array((2, 2), "S"), dims=("time", "mode"), coords={"time": [100, 101], "mode": [1, 2]})
    if fault == "unknown-mode":
        bad = S.assign_coords(mode=[1, 7])
        B.raises("inverse_transform with a mode label the model does not have raises", lambda: model.inverse_transform(bad))
        B.raises("inverse_transform(normalized=True) with a mode label the model does not have raises", lambda: model.inverse_transform(bad, normalized=True))
        B.raises("inverse_transform with only unknown mode labels raises", lambda: model.inverse_transform(S.assign_coords(mode=[8, 9])))
    elif fault == "unknown-mode-rotated":
        rot = M.rotate(model, n_modes=2, power=1)
        bad = S.assign_coords(mode=[1, 7])
        B.raises("rotated model: inverse_transform with an unknown mode label raises", lambda: rot.inverse_transform(bad))
        B.raises("rotated model: inverse_transform(normalized=True) with an unknown mode label raises", lambda: rot.inverse_transform(bad, normalized=True))
    elif fault == "numpy-scores":
        B.raises("inverse_transform of a numpy array raises", lambda: model.inverse_transform(np.ones((2, 2))))
    elif fault == "extra-dim-is-valid":
        S3 = xr.DataArray(B.array((2, 2, 2), "S3"), dims=("member", "time", "mode"), coords={"member": [0, 1], "time": [100, 101], "mode": [1, 2]})
        r = B.completes("score array with an additional dimension is accepted", lambda: model.inverse_transform(S3))
        if r is not None:
            B.eq("extra dimension is carried through", r.isel(member=0, drop=True), model.inverse_transform(S3.isel(member=0, drop=True)))


def h_cross_fault(B, fault="different-sample-count"):
    X = da2d(B, "x", 4, 2, feat="x")
    B.covers("cross-set validation")
    mk = lambda **kw: M.cross("CPCCA", n_modes=2, alpha=0.5, use_pca=False, **kw)  # noqa
    if fault == "different-sample-count":
        Y = da2d(B, "y", 5, 2, feat="y")
        B.raises("cross-set fit with different sample counts raises", lambda: mk().fit(X, Y, "time"))
    elif fault == "numpy-Y":
        B.raises("cross-set fit with numpy Y raises", lambda: mk().fit(X, np.ones((4, 2)), "time"))
    elif fault == "same-feature-names":
        Y = da2d(B, "y", 4, 2, feat="y")
        B.raises("feature_name list with equal names raises", lambda: M.cross("CPCCA", n_modes=2, feature_name=["f", "f"]).fit(X, Y, "time"))
    elif fault == "transform-none":
        Y = da2d(B, "y", 4, 2, feat="y")
        m = mk().fit(X, Y, "time")
        B.raises("transform() without data raises", lambda: m.transform())
    elif fault == "transform-missing-dim":
        Y = da2d(B, "y", 4, 2, feat="y")
        m = mk().fit(X, Y, "time")
        bad = xr.DataArray(B.array((2,), "xb"), dims=("time",), coords={"time": [100, 101]})
        B.raises("cross-set transform of X lacking its feature dimension raises", lambda: m.transform(X=bad))
    elif fault == "n_modes>rank":
        Y = da2d(B, "y", 4, 2, feat="y")
        B.raises("cross-set n_modes > rank raises", lambda: M.cross("CPCCA", n_modes=3, use_pca=False).fit(X, Y, "time"))
    elif fault == "unknown-solver":
        Y = da2d(B, "y", 4, 2, feat="y")
        B.raises("cross-set unknown solver raises", lambda: M.cross("CPCCA", n_modes=2, use_pca=False, solver="lapack").fit(X, Y, "time"))


def configs(tier):
    out = []

    def add(fn, key, **params):
        cfg = {"key": key, "fn": fn, "params": params}
        if fn in ("h_cross_fault", "h_alpha"):
            cfg["options"] = {"full_rank": True}
        out.append(cfg)

    for f in ("numpy-input", "list-of-numpy", "none-input", "string-input", "unknown-sample-dim", "empty-sample-dims", "all-dims-are-sample-dims", "unknown-sample-dim|center=False", "one-unknown-of-two-sample-dims", "one-unknown-of-two-sample-dims|center=False", "one-unknown-of-two-sample-dims|list|center=False", "empty-sample-dims|center=False", "all-dims-are-sample-dims|center=False", "numpy-weights", "n_modes>rank", "n_modes>rank|solver=randomized", "n_modes>rank|solver=auto", "n_modes>rank|ComplexEOF|solver=randomized", "n_modes=0", "n_modes=-1", "n_modes=1.5", "n_modes='a'", "n_modes=None", "unknown-solver", "unknown-solver-empty", "n_modes=numpy.int64(2)", "n_modes=numpy.int32(1)", "n_modes=numpy.float64(2.0)"):
        add("h_fit_fault", f"fit|{f}", fault=f)
    for k in ("int<=0", "int>rank", "float>1", "float<=0"):
        add("h_nmodes_symbolic", f"n_modes symbolic|{k}", kind=k)
    add("h_alpha", "alpha|negative (symbolic)", kind="negative")
    add("h_alpha", "alpha|above one is valid", kind="above-one")
    for f in ("missing-feature-dim", "extra-dim", "renamed-dim", "shifted-feature-coordinate", "reordered-coordinate-different-values", "shorter-feature-dim", "numpy-input", "dataset-instead-of-dataarray", "list-of-two", "no-sample-dim"):
        add("h_transform_fault", f"transform|{f}", fault=f)
        add("h_transform_fault", f"transform on a deserialised model|{f}", fault=f, restored=True)
        if tier == "thorough":
            add("h_transform_fault", f"transform on a rotated model|{f}", fault=f, rotated=True)
            add("h_transform_fault", f"transform on a rotated, deserialised model|{f}", fault=f, rotated=True, restored=True)
    for f in ("dropped-variable", "dataarray-instead-of-dataset", "wrong-list-length", "single-item-for-list"):
        add("h_transform_fault_containers", f"transform|{f}", fault=f)
    for f in ("unknown-mode", "unknown-mode-rotated", "numpy-scores", "extra-dim-is-valid"):
        add("h_scores_fault", f"scores|{f}", fault=f)
    for f in ("different-sample-count", "numpy-Y", "same-feature-names", "transform-none", "transform-missing-dim", "n_modes>rank", "unknown-solver"):
        add("h_cross_fault", f"cross|{f}", fault=f)
    return out
