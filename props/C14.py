"""C14 - a model's answers depend only on its last fit, never on call history."""
from __future__ import annotations

import copy

import numpy as np
import xarray as xr

from .common import *  # noqa
from . import models as M

EXPLANATION = (
    "Inductive formulation over call histories, on symbolic data. Frame step: from the state after fit(D) each non-fit operation of the alphabet "
    "(transform of other data, inverse_transform, components, scores, metrics, compute, serialize, rotator.fit(model), bootstrapper.fit(model)) must leave every "
    "later answer term-identical (all accessors re-queried), must leave the user's input objects identical (values, names, attrs) and must leave names/attrs of "
    "the model's own arrays intact. Fit step: fit(D2) on an object that went through fit(D1) and one operation must equal a fresh model's fit(D2) "
    "(components, scores, explained variance, transform of new data, inverse_transform), for D1/D2 of equal and of different structure. "
    "Both steps together give every finite history by induction; sequences of length <= 3 are additionally run directly in the thorough tier."
)
FUNCTIONS = ["GenericListTransformer.fit/transform", "Preprocessor._fit_algorithm/transform", "MultiIndexConverter.transform (coords_from_transform)", "Stacker.transform (coords_out)", "Sanitizer.transform (is_valid_feature)", "DataContainer.add/set_attrs", "EOFRotator._fit_algorithm", "CPCCARotator._fit_algorithm", "EOFBootstrapper.fit", "BaseModel.compute/serialize"]
BOUNDS = {
    "quick": {"n": "4", "p": "2..4", "k": 2, "structures": "DataArray 2-D, 3-D, Dataset, list", "operations": "all 9 of the alphabet (one at a time)"},
    "thorough": {"n": "4..5", "p": "2..4", "k": 2, "sequences": "all pairs of operations between two fits"},
}
OUTSIDE = ["dask-backed compute()", "bootstrap resampling values (only the side effects of EOFBootstrapper.fit on the model are checked here; C20 checks its results)"]
TRUSTED = ["SVD / promax / sign stubs are functions of their inputs (same input, same output)"]
ASSUMPTIONS = []

STRUCT = {
    "2d": dict(layout="2d", p=2),
    "2d-p3": dict(layout="2d", p=3),
    "3d": dict(layout="3d", p=4),
    "dataset": dict(layout="dataset", p=4),
    "list": dict(layout="list", p=4),
    "multiindex": dict(layout="multiindex", p=2),
}


def _mk(B, struct, name, n=4):
    st = STRUCT[struct]
    return M.make_input(B, st["layout"], n, st["p"], False, {}, name=name)


def _answers(model, Xn=None, S=None):
    out = {"components": model.components(), "scores": model.scores(), "explained_variance": model.explained_variance(), "singular_values": model.singular_values(), "ratio": model.explained_variance_ratio()}
    if "norms" in model.data:
        # the non-default flags of the two accessors are queries too
        out["components(normalized=False)"] = model.components(normalized=False)
        out["scores(normalized=True)"] = model.scores(normalized=True)
    if Xn is not None:
        out["transform(new)"] = model.transform(Xn)
    if S is not None:
        out["inverse_transform(S)"] = model.inverse_transform(S)
    return out


def _meta(model):
    return {k: (v.name, tuple(v.dims), repr(sorted(v.attrs.items(), key=str))) for k, v in model.data.items()}


def _new_like(B, X, name, n=2):
    """new data with the feature layout of X and n samples labelled 100.."""

    def one(da, nm):
        dims = list(da.dims)
        shape = [n if d == "time" else da.sizes[d] for d in dims]
        coords = {d: ([100 + i for i in range(n)] if d == "time" else da[d].values) for d in dims}
        return xr.DataArray(B.array(tuple(shape), nm), dims=dims, coords=coords, name=da.name)

    if isinstance(X, list):
        return [one(x, f"{name}{i}") for i, x in enumerate(X)]
    if isinstance(X, xr.Dataset):
        return xr.Dataset({v: one(X[v], f"{name}{v}") for v in X.data_vars})
    if "t1" in X.dims:
        shape = tuple(2 if d == "t2" else (1 if d == "t1" else X.sizes[d]) for d in X.dims)
        coords = {d: ([7, 8] if d == "t2" else (["z"] if d == "t1" else X[d].values)) for d in X.dims}
        return xr.DataArray(B.array(shape, name), dims=X.dims, coords=coords, name=X.name)
    return one(X, name)


def _apply(B, op, model, X, Xn, S):
    if op == "transform":
        model.transform(Xn)
    elif op == "inverse_transform":
        model.inverse_transform(S)
    elif op == "queries":
        model.components(); model.scores(); model.explained_variance(); model.explained_variance_ratio(); model.singular_values()
        model.components(normalized=False); model.scores(normalized=True); model.components(normalized=False)
    elif op == "compute":
        model.compute()
    elif op == "serialize":
        model.serialize()
    elif op == "rotator":
        M.rotate(model, n_modes=2, power=1)
    elif op == "rotator-power2":
        M.rotate(model, n_modes=2, power=2)
    elif op == "bootstrapper":
        from xeofs.validation import EOFBootstrapper

        EOFBootstrapper(n_bootstraps=1, seed=3).fit(model)
    elif op == "none":
        pass
    else:
        raise ValueError(op)


def h_frame2(B, struct="2d-p3", op1="transform", op2="rotator"):
    """two operations after a fit (sequences of length 3)"""
    X, dim, fd = _mk(B, struct, "x")
    Xn = _new_like(B, X, "xn")
    S = xr.DataArray(B.array((2, 2), "S"), dims=("time", "mode"), coords={"time": [100, 101], "mode": [1, 2]})
    model = M.single("EOF", n_modes=2, solver="full").fit(X, dim)
    before = _answers(model, Xn, S)
    meta0 = _meta(model)
    _apply(B, op1, model, X, Xn, S)
    _apply(B, op2, model, X, Xn, S)
    after = _answers(model, Xn, S)
    for k in before:
        B.eq(f"after {op1};{op2}: {k} unchanged", after[k], before[k])
    B.check(f"after {op1};{op2}: names/dims/attrs unchanged", _meta(model) == meta0, "changed")


def h_frame(B, struct="2d", op="transform", flags=None, weights=False):
    flags = dict(flags or {})
    X, dim, fd = _mk(B, struct, "x")
    X0 = copy.deepcopy(X)
    w = w0 = None
    if weights:
        w = M.make_weights(B, X, fd)
        w0 = copy.deepcopy(w)
    names0 = [getattr(x, "name", None) for x in (X if isinstance(X, list) else [X])]
    Xn = _new_like(B, X, "xn")
    S = xr.DataArray(B.array((2, 2), "S"), dims=("time", "mode"), coords={"time": [100, 101], "mode": [1, 2]}) if struct != "multiindex" else None
    model = M.single("EOF", n_modes=2, solver="full", **flags)
    model.fit(X, dim, weights=w) if weights else model.fit(X, dim)
    B.covers(f"operation {op}")
    if weights:
        # fitting must not touch the user's objects; a second model fitted on the very same objects gets the same answer
        B.eq("user input values unchanged by fit", X, X0)
        B.eq("user weights unchanged by fit", w, w0)
        twin = M.single("EOF", n_modes=2, solver="full", **flags)
        twin.fit(X, dim, weights=w)
        B.eq("a second model fitted on the same objects: singular values", twin.data["norms"], model.data["norms"])
        Xn0 = copy.deepcopy(Xn)
        t1 = model.transform(Xn)
        t2 = model.transform(Xn)
        B.eq("transform of the same object twice gives the same scores", t2, t1)
        B.eq("transform leaves its argument unchanged", Xn, Xn0)
    before = _answers(model, Xn, S)
    meta0 = _meta(model)
    r = B.completes(f"operation {op} runs", lambda: _apply(B, op, model, X, Xn, S) or True)
    if r is None:
        return
    after = _answers(model, Xn, S)
    for k in before:
        B.eq(f"after {op}: {k} unchanged", after[k], before[k])
    meta1 = _meta(model)
    diff = {k: (meta0[k], meta1.get(k)) for k in meta0 if meta0[k] != meta1.get(k)}
    B.check(f"after {op}: names/dims/attrs of the model's own arrays unchanged", not diff, f"changed: { {k: (a[0], b[0] if b else None) for k, (a, b) in diff.items()} }")
    B.eq("user input values unchanged", X, X0)
    names1 = [getattr(x, "name", None) for x in (X if isinstance(X, list) else [X])]
    B.check("user input names unchanged", names0 == names1, f"{names0} -> {names1}")


def h_refit(B, s1="2d", s2="2d", op="none", flags=None):
    flags = dict(flags or {})
    D1, dim1, _ = _mk(B, s1, "d")
    D2, dim2, _ = _mk(B, s2, "e")
    Xn1 = _new_like(B, D1, "dn")
    Xn2 = _new_like(B, D2, "en")
    S = xr.DataArray(B.array((2, 2), "S"), dims=("time", "mode"), coords={"time": [100, 101], "mode": [1, 2]})
    model = M.single("EOF", n_modes=2, solver="full", **flags).fit(D1, dim1)
    _apply(B, op, model, D1, Xn1, S)
    B.covers("second fit on the same object")
    r = B.completes("second fit runs", lambda: model.fit(D2, dim2))
    if r is None:
        return
    fresh = M.single("EOF", n_modes=2, solver="full", **flags).fit(D2, dim2)
    got = B.completes("answers of the re-fitted model", lambda: _answers(model, Xn2, S if s2 != "multiindex" else None))
    if got is None:
        return
    exp = _answers(fresh, Xn2, S if s2 != "multiindex" else None)
    for k in exp:
        B.eq(f"refit == fresh fit: {k}", got[k], exp[k])


def h_refit_class(B, cls="ExtendedEOF", n=5, p=3, rot=None, extra=None):
    """second fit of one object, for the model classes that keep flags / inner models next to their results
    (rotators: `sorted`, ExtendedEOF: inner EOF, HilbertEOF / ComplexEOF: augmented data): every stored array must be that of a fresh object"""
    extra = dict(extra or {})
    cplx = cls == "ComplexEOF"
    base = "EOF" if rot else cls
    D1 = da2d(B, "d", n, p, cplx)
    D2 = da2d(B, "e", n, p, cplx)
    k = 3 if rot else 2
    if rot:
        m1 = M.single(base, n_modes=p, solver="full").fit(D1, "time")
        m2 = M.single(base, n_modes=p, solver="full").fit(D2, "time")
        obj_ = getattr(xs_mod(), "EOFRotator")(n_modes=k, **rot)
        obj_.fit(m1)
        B.covers("EOFRotator.fit (second fit of the same rotator object on another model)")
        r = B.completes("second fit runs", lambda: obj_.fit(m2))
        fresh = getattr(xs_mod(), "EOFRotator")(n_modes=k, **rot).fit(m2)
    else:
        obj_ = M.single(cls, n_modes=k, solver="full", **extra).fit(D1, "time")
        B.covers(f"{cls}.fit (second fit on the same object)")
        r = B.completes("second fit runs", lambda: obj_.fit(D2, "time"))
        fresh = M.single(cls, n_modes=k, solver="full", **extra).fit(D2, "time")
    if r is None:
        return
    keys = [k_ for k_ in fresh.data.keys() if k_ not in ("input_data",)]
    B.check("re-fitted object stores the same entries as a fresh one", sorted(obj_.data.keys()) == sorted(fresh.data.keys()), f"{sorted(obj_.data.keys())} vs {sorted(fresh.data.keys())}")
    for key in keys:
        if key in obj_.data:
            B.eq(f"re-fitted == fresh: data[{key}]", obj_.data[key], fresh.data[key])
    B.eq("re-fitted == fresh: components()", obj_.components(), fresh.components())
    B.eq("re-fitted == fresh: scores()", obj_.scores(), fresh.scores())


def xs_mod():
    import xeofs.single as xs_

    return xs_


def h_refit_pop(B, n=6, p=3, npca=3):
    """POP keeps a 'sorted' flag next to its results: a second fit must give what a fresh model gives"""
    D1 = da2d(B, "d", n, p)
    D2 = da2d(B, "e", n, p)
    mk = lambda: M.single("POP", n_modes=npca, n_pca_modes=npca, use_pca=True, solver="full")  # noqa
    model = mk()
    model.fit(D1, "time")
    B.covers("POP.fit (second fit on the same object)", "POP._sort_by_variance")
    r = B.completes("second POP fit runs", lambda: model.fit(D2, "time"))
    if r is None:
        return
    fresh = mk()
    fresh.fit(D2, "time")
    for key in ("norms", "eigenvalues", "components", "scores"):
        B.eq(f"re-fitted POP == fresh POP: {key}", model.data[key], fresh.data[key])
    nrm = model.data["norms"].data
    B.ge("re-fitted POP: modes ordered by descending std of the coefficient series", nrm[:-1], nrm[1:])


def h_cross_frame(B, op="rotator", alpha=1.0):
    X = da2d(B, "x", 4, 2, feat="x")
    Y = da2d(B, "y", 4, 2, feat="y")
    model = M.cross("CPCCA", n_modes=2, alpha=alpha, use_pca=False).fit(X, Y, "time")
    before = {"scores1": model.scores()[0], "scores2": model.scores()[1], "components1": model.components()[0], "sv": model.data["singular_values"]}
    meta0 = _meta(model)
    if op == "rotator":
        M.rotate_cross(model, n_modes=2, power=1)
    elif op == "transform":
        model.transform(da2d(B, "xn", 2, 2, feat="x", scoords=[100, 101]), da2d(B, "yn", 2, 2, feat="y", scoords=[100, 101]))
    elif op == "queries":
        # every accessor with default and non-default flags, and every metric
        model.scores(); model.scores(normalized=True); model.components(); model.components(normalized=False)
        for mname in ("squared_covariance_fraction", "cross_correlation_coefficients", "correlation_coefficients_X", "correlation_coefficients_Y", "fraction_variance_X_explained_by_X", "fraction_variance_Y_explained_by_Y", "fraction_variance_Y_explained_by_X"):
            try:
                getattr(model, mname)()
            except (NotImplementedError, ValueError):
                pass
        model.transform(X, Y, normalized=True)
        model.inverse_transform(*model.scores())
    B.covers("CPCCARotator.fit side effects")
    after = {"scores1": model.scores()[0], "scores2": model.scores()[1], "components1": model.components()[0], "sv": model.data["singular_values"]}
    for k in before:
        B.eq(f"cross: after {op}: {k} unchanged", after[k], before[k])
    meta1 = _meta(model)
    diff = {k: (meta0[k][0], meta1[k][0]) for k in meta0 if meta0[k] != meta1.get(k)}
    B.check(f"cross: after {op}: names/attrs of the model's own arrays unchanged", not diff, f"changed: {diff}")


def h_cross_refit(B, alpha=0.5):
    X1, Y1 = da2d(B, "x", 4, 2, feat="x"), da2d(B, "y", 4, 2, feat="y")
    X2, Y2 = da2d(B, "u", 4, 2, feat="x"), da2d(B, "v", 4, 2, feat="y")
    model = M.cross("CPCCA", n_modes=2, alpha=alpha, use_pca=False).fit(X1, Y1, "time")
    r = B.completes("cross: second fit runs", lambda: model.fit(X2, Y2, "time"))
    if r is None:
        return
    fresh = M.cross("CPCCA", n_modes=2, alpha=alpha, use_pca=False).fit(X2, Y2, "time")
    B.eq("cross refit == fresh: singular values", model.data["singular_values"], fresh.data["singular_values"])
    B.eq("cross refit == fresh: scores1", model.scores()[0], fresh.scores()[0])
    Xn, Yn = da2d(B, "xn", 2, 2, feat="x", scoords=[100, 101]), da2d(B, "yn", 2, 2, feat="y", scoords=[100, 101])
    tr = B.completes("cross refit: transform(new) runs", lambda: model.transform(Xn, Yn))
    if tr is not None:
        tf = fresh.transform(Xn, Yn)
        B.eq("cross refit == fresh: transform(new)[0]", tr[0], tf[0])
        B.eq("cross refit == fresh: transform(new)[1]", tr[1], tf[1])


OPS = ["transform", "inverse_transform", "queries", "compute", "serialize", "rotator", "rotator-power2", "bootstrapper"]


def configs(tier):
    out = []

    def add(fn, key, **params):
        cfg = {"key": key, "fn": fn, "params": params}
        if fn.startswith("h_cross"):
            cfg["options"] = {"full_rank": True}
        out.append(cfg)

    for op in OPS:
        add("h_frame", f"frame|2d-p3|{op}", struct="2d-p3", op=op)
    for st in ("3d", "dataset", "list", "multiindex"):
        for op in ("transform", "rotator"):
            add("h_frame", f"frame|{st}|{op}", struct=st, op=op)
    add("h_frame", "frame|2d-p3|standardize|transform", struct="2d-p3", op="transform", flags={"standardize": True})
    # weights with every preprocessing step that copies the data switched off / on
    add("h_frame", "frame|2d-p3|weights|center=False|transform", struct="2d-p3", op="transform", flags={"center": False}, weights=True)
    add("h_frame", "frame|2d-p3|weights|transform", struct="2d-p3", op="transform", weights=True)
    for op in ("bootstrapper", "rotator", "queries"):
        add("h_frame", f"frame|2d-p3|center=False|{op}", struct="2d-p3", op=op, flags={"center": False})
    add("h_frame", "frame|dataset|weights|center=False|transform", struct="dataset", op="transform", flags={"center": False}, weights=True)
    pairs = [("2d", "2d"), ("2d", "2d-p3"), ("2d-p3", "3d"), ("3d", "2d"), ("dataset", "2d"), ("2d", "list"), ("list", "list"), ("multiindex", "2d"), ("2d", "multiindex")]
    for s1, s2 in pairs:
        add("h_refit", f"refit|{s1}->{s2}|none", s1=s1, s2=s2, op="none")
    for op in ("transform", "rotator", "serialize") if tier == "quick" else OPS:
        add("h_refit", f"refit|2d->2d-p3|{op}", s1="2d", s2="2d-p3", op=op)
    add("h_refit", "refit|multiindex->multiindex|transform", s1="multiindex", s2="multiindex", op="transform")
    add("h_refit", "refit|2d->2d|standardize", s1="2d", s2="2d", op="none", flags={"standardize": True})
    if tier == "thorough":
        for o1 in OPS:
            for o2 in OPS:
                if o1 != o2:
                    add("h_frame2", f"frame2|{o1};{o2}", op1=o1, op2=o2)
    add("h_refit_class", "refit|ExtendedEOF", cls="ExtendedEOF", n=6, p=2, extra={"tau": 1, "embedding": 2})
    add("h_refit_class", "refit|HilbertEOF", cls="HilbertEOF", n=4, p=2, extra={"padding": "none"})
    add("h_refit_class", "refit|ComplexEOF", cls="ComplexEOF", n=4, p=2)
    add("h_refit_class", "refit|EOFRotator object on a second model|k3", rot={"power": 1})
    cfgp = {"key": "refit|POP|n6p3", "fn": "h_refit_pop", "params": {"n": 6, "p": 3, "npca": 3}, "options": {"full_rank": True, "budget_s": 150 if tier == "quick" else 900}}
    out.append(cfgp)
    add("h_cross_frame", "cross|frame|rotator", op="rotator")
    add("h_cross_frame", "cross|frame|transform", op="transform", alpha=0.5)
    add("h_cross_frame", "cross|frame|queries", op="queries", alpha=0.5)
    add("h_cross_frame", "cross|frame|queries|MCA", op="queries", alpha=1.0)
    add("h_cross_refit", "cross|refit", alpha=0.5)
    return out
