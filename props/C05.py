"""C05 - out-of-sample transform is a per-sample map labelled by the new data."""
from __future__ import annotations

import numpy as np
import xarray as xr

from .common import *  # noqa
from . import models as M

EXPLANATION = (
    "The model is fitted on symbolic data X; new symbolic data sets with disjoint / overlapping / repeated sample labels are transformed by the real code. "
    "Obligations for all values: result sample coordinate == the new data's, no NaN entry, transform(concat(A,B)) == concat(transform(A), transform(B)), "
    "transform(X_fit[rows]) == scores()[rows] for row subsets."
)
FUNCTIONS = [
    "BaseModelSingleSet.transform", "Preprocessor.transform / inverse_transform_scores_unseen", "Sanitizer.transform / inverse_transform_scores_unseen",
    "MultiIndexConverter (transform reference)", "Stacker.transform", "EOFRotator._transform_algorithm", "BaseModelCrossSet.transform", "CPCCARotator.transform",
]
BOUNDS = {
    "quick": {"n_fit": "4", "n_new": "1..3 samples, all 2-part splits", "n_features": "2..3", "n_modes": 2},
    "thorough": {"n_fit": "4..5", "n_new": "1..4 samples, all 2-part splits", "n_features": "2..4", "n_modes": "2..3"},
}
OUTSIDE = ["IEEE rounding", "entirely missing new samples (may be omitted by the property)"]
TRUSTED = ["SVD / inv / promax / sign contracts"]
ASSUMPTIONS = []

LABELS = {
    "disjoint": [100, 101, 102, 103],
    "overlap": [2, 3, 100, 101],
    "equal": [0, 1, 2, 3],
    "repeated": [100, 100, 101, 101],
    "unsorted": [103, 7, 100, 1],
}


def _has_nan(B, da):
    d = da.data
    try:
        return bool(np.isnan(d).any())
    except TypeError:
        return False


def h_single(B, cls="EOF", n=4, p=2, k=2, m=3, labels="disjoint", flags=None, rot=None, layout="2d", normalized=False):
    flags = dict(flags or {})
    cplx = cls == "ComplexEOF"
    X, dim, fdims = M.make_input(B, layout, n, p, cplx, flags)
    model = M.single(cls, n_modes=k, solver="full", **flags)
    model.fit(X, dim)
    if rot:
        model = M.rotate(model, **rot)
    B.covers(f"{type(model).__name__}.transform")
    lab = LABELS[labels][:m]
    if layout == "2d":
        Xn = da2d(B, "xn", m, p, cplx, scoords=lab)
        sdim = "time"
    elif layout == "3d":
        Xn = da3d(B, "xn", m, 2, max(1, p // 2), cplx)
        Xn = Xn.assign_coords(time=lab)
        sdim = "time"
    else:
        raise ValueError(layout)
    tr = B.completes("transform(X_new) runs", lambda: model.transform(Xn, normalized=normalized))
    if tr is None:
        return
    B.check("sample labels are those of the new data", list(tr[sdim].values) == list(lab), f"got {list(tr[sdim].values)} expected {list(lab)}")
    B.check("no NaN in transform(X_new)", not _has_nan(B, tr), "NaN entries in the result")
    # locality: every 2-part split
    for cut in range(1, m):
        A, Bp = Xn.isel({sdim: slice(0, cut)}), Xn.isel({sdim: slice(cut, None)})
        ta = B.completes(f"transform(part A, cut={cut}) runs", lambda: model.transform(A, normalized=normalized))
        tb = B.completes(f"transform(part B, cut={cut}) runs", lambda: model.transform(Bp, normalized=normalized))
        if ta is None or tb is None:
            continue
        cat = xr.concat([ta, tb], dim=sdim)
        B.eq(f"transform(concat)==concat(transform) cut={cut}", tr, cat)
    # subsets of the training samples
    sc = model.scores(normalized=normalized)
    for rows in ([0], [1, 3], [2, 0]):
        sub = X.isel({sdim: rows})
        ts = B.completes(f"transform(X_fit[{rows}]) runs", lambda: model.transform(sub, normalized=normalized))
        if ts is not None:
            B.eq(f"transform(X_fit[{rows}])==scores()[{rows}]", ts, sc.isel({sdim: rows}))


def h_missing_new(B, n=4, p=2, k=2, labels=(100, 100, 101), missing=(1,)):
    """new data with (possibly repeated) labels in which some samples are entirely missing: every other sample
    must come back under its own label with the value it gets when transformed alone"""
    X = da2d(B, "x", n, p)
    model = M.single("EOF", n_modes=k, solver="full").fit(X, "time")
    m = len(labels)
    mask = np.zeros((m, p), dtype=bool)
    mask[list(missing), :] = True
    Xn = da2d(B, "xn", m, p, scoords=list(labels), nan_mask=mask)
    B.covers("Sanitizer.transform (all-NaN new samples)")
    tr = B.completes("transform(new data with missing samples) runs", lambda: model.transform(Xn))
    if tr is None:
        return
    keep = [i for i in range(m) if i not in missing]
    got = list(tr["time"].values)
    d = tr.transpose("time", "mode").data
    nanrow = [bool(np.all(np.isnan(d[i]))) for i in range(len(got))]
    got_valid = [g for g, isn in zip(got, nanrow) if not isn]
    B.check("every non-missing new sample is returned under its own label", got_valid == [labels[i] for i in keep], f"labels of non-NaN rows {got_valid}, expected {[labels[i] for i in keep]}")
    if got_valid == [labels[i] for i in keep]:
        rows = [i for i, isn in enumerate(nanrow) if not isn]
        alone = xr.concat([model.transform(Xn.isel(time=[i])) for i in keep], dim="time")
        B.eq("non-missing samples: same scores as when transformed alone", tr.isel(time=rows), alone)


def h_index_kind_mismatch(B, p=2):
    """model fitted on a stacked (MultiIndex) sample dimension, new data with a plain sample index of the same name"""
    X, dim, fd = M.make_input(B, "stacked-sample", 4, p, False, {})
    model = M.single("EOF", n_modes=2, solver="full").fit(X, dim)
    Xn = da2d(B, "xn", 2, p, scoords=[100, 101])
    tr = B.completes("transform(new data with a plain sample index) on a model fitted with a MultiIndex sample dimension runs", lambda: model.transform(Xn))
    if tr is not None:
        B.check("sample labels are those of the new data", list(tr["time"].values) == [100, 101], str(list(tr["time"].values)))


def h_multi(B, n=4, m=2):
    import xeofs.multi as xm

    Xs = [da2d(B, f"x{i}", n, 2, feat=f"f{i}") for i in range(2)]
    model = xm.CCA(n_modes=2, pca=False)
    model.fit(Xs, "time")
    B.covers("multi.CCA.transform (new data)")
    lab = [100 + i for i in range(m)]
    Xn = [da2d(B, f"xn{i}", m, 2, feat=f"f{i}", scoords=lab) for i in range(2)]
    tr = B.completes("multi.CCA.transform(new views) runs", lambda: model.transform(Xn))
    if tr is None:
        return
    for i, t in enumerate(tr):
        B.check(f"view {i}: sample labels are those of the new data", list(t["time"].values) == lab, f"got {list(t['time'].values)}")
        B.check(f"view {i}: no NaN", not _has_nan(B, t), "NaN entries in the result")
    ta = model.transform([x.isel(time=[0]) for x in Xn])
    tb = model.transform([x.isel(time=slice(1, None)) for x in Xn])
    for i in range(2):
        B.eq(f"view {i}: transform(concat)==concat(transform)", tr[i], xr.concat([ta[i], tb[i]], dim="time"))


def h_multiindex(B, cls="EOF", p=2, k=2):
    """two sample dimensions: fitted on (t1,t2) grid, new data on another grid"""
    X, dim, fdims = M.make_input(B, "multiindex", 4, p, False, {})
    model = M.single(cls, n_modes=k, solver="full")
    model.fit(X, dim)
    B.covers("MultiIndexConverter.inverse_transform_scores_unseen")
    Xn = xr.DataArray(B.array((1, 3, p), "xn"), dims=("t1", "t2", "x"), coords={"t1": ["z"], "t2": [7, 8, 9], "x": XS[:p]}, name="v_xn")
    tr = B.completes("transform(X_new) runs", lambda: model.transform(Xn))
    if tr is None:
        return
    B.check("sample dims restored", set(tr.dims) == {"t1", "t2", "mode"}, f"dims {tr.dims}")
    if set(tr.dims) == {"t1", "t2", "mode"}:
        B.check("t1 labels are those of the new data", list(tr["t1"].values) == ["z"], str(list(tr["t1"].values)))
        B.check("t2 labels are those of the new data", list(tr["t2"].values) == [7, 8, 9], str(list(tr["t2"].values)))
        B.check("no NaN in transform(X_new)", not _has_nan(B, tr), "NaN entries in the result")
        A, Bp = Xn.isel(t2=slice(0, 1)), Xn.isel(t2=slice(1, None))
        ta, tb = model.transform(A), model.transform(Bp)
        B.eq("transform(concat)==concat(transform)", tr, xr.concat([ta, tb], dim="t2"))
    # a later query of the fitted scores must still carry the fit-time labels
    sc = model.scores()
    B.check("scores() keep the training labels after transform of other data", list(sc["t2"].values) == list(X["t2"].values), str(list(sc["t2"].values)))
    # ... and every later transform is labelled by ITS argument: the training data again, then a subset of it
    tx = B.completes("transform(training data) after transform(other data) runs", lambda: model.transform(X))
    if tx is not None:
        B.check("transform(training data) after transform(other data): labelled by the data passed", list(tx["t1"].values) == list(X["t1"].values) and list(tx["t2"].values) == list(X["t2"].values), f"t1={list(tx['t1'].values)} t2={list(tx['t2'].values)}")
        if set(tx.dims) == set(sc.dims) and tx.sizes == sc.sizes:
            B.eq("transform(training data) after transform(other data) == scores()", tx, sc)
    sub = X.isel(t2=slice(0, 1))
    ts = B.completes("transform(subset of the training data) runs", lambda: model.transform(sub))
    if ts is not None:
        B.check("transform(subset): labelled by the subset", list(ts["t2"].values) == list(sub["t2"].values) and list(ts["t1"].values) == list(sub["t1"].values), f"t1={list(ts['t1'].values)} t2={list(ts['t2'].values)}")


def h_cross(B, cls="CPCCA", n=4, p=2, q=2, k=2, m=3, labels="disjoint", alpha=1.0, use_pca=False, rot=None, normalized=False):
    X = da2d(B, "x", n, p, feat="x")
    Y = da2d(B, "y", n, q, feat="y")
    model = M.cross(cls, n_modes=k, alpha=alpha, use_pca=use_pca, n_pca_modes="all")
    model.fit(X, Y, "time")
    if rot:
        model = M.rotate_cross(model, **rot)
    B.covers(f"{type(model).__name__}.transform")
    lab = LABELS[labels][:m]
    Xn = da2d(B, "xn", m, p, feat="x", scoords=lab)
    Yn = da2d(B, "yn", m, q, feat="y", scoords=lab)
    tr = B.completes("transform(X_new,Y_new) runs", lambda: model.transform(Xn, Yn, normalized=normalized))
    if tr is None:
        return
    for i, t in enumerate(tr):
        B.check(f"field {i + 1}: sample labels are those of the new data", list(t["time"].values) == list(lab), f"got {list(t['time'].values)} expected {list(lab)}")
        B.check(f"field {i + 1}: no NaN in transform(new)", not _has_nan(B, t), "NaN entries in the result")
    for cut in range(1, m):
        ta = model.transform(Xn.isel(time=slice(0, cut)), Yn.isel(time=slice(0, cut)), normalized=normalized)
        tb = model.transform(Xn.isel(time=slice(cut, None)), Yn.isel(time=slice(cut, None)), normalized=normalized)
        for i in range(2):
            B.eq(f"field {i + 1}: transform(concat)==concat(transform) cut={cut}", tr[i], xr.concat([ta[i], tb[i]], dim="time"))
    sx = model.scores(normalized=normalized)
    rows = [1, 3]
    ts = B.completes("transform(fit subset) runs", lambda: model.transform(X.isel(time=rows), Y.isel(time=rows), normalized=normalized))
    if ts is not None:
        for i in range(2):
            B.eq(f"field {i + 1}: transform(fit[{rows}])==scores[{rows}]", ts[i], sx[i].isel(time=rows))
    # only X given
    tx = B.completes("transform(X_new only) runs", lambda: model.transform(X=Xn, normalized=normalized))
    if tx is not None:
        B.eq("transform(X only)==transform(X,Y)[0]", tx, tr[0])
    ty = B.completes("transform(Y_new only) runs", lambda: model.transform(Y=Yn, normalized=normalized))
    if ty is not None:
        B.eq("transform(Y only)==transform(X,Y)[1]", ty, tr[1])


def h_dataset_variable_order(B, n=4, m=2):
    """new data given as a Dataset that lists the same variables in another order: a Dataset is a mapping by NAME, so the scores
    are those of the fit-time order (or the call is refused) - never the numbers of a positional stacking"""
    A = da2d(B, "xa", n, 2)
    Bv = da2d(B, "xb", n, 1, feat="y", fcoords=[7.0])
    model = M.single("EOF", n_modes=2, solver="full").fit(xr.Dataset({"A": A, "B": Bv}), "time")
    An = da2d(B, "na", m, 2, scoords=[100, 101][:m])
    Bn = da2d(B, "nb", m, 1, feat="y", fcoords=[7.0], scoords=[100, 101][:m])
    B.covers("Stacker.transform (Dataset variables are matched by name)")
    t1 = model.transform(xr.Dataset({"A": An, "B": Bn}))
    try:
        t2 = model.transform(xr.Dataset({"B": Bn, "A": An}))
    except (ValueError, KeyError, TypeError):
        B.check("Dataset with its variables in another order: refused", True, "")
        return
    B.eq("Dataset with its variables in another order: same scores as in the fit-time order", t2, t1)
    sc = model.scores()
    B.check("scores() keep the training labels afterwards", list(sc["time"].values) == list(A["time"].values), str(list(sc["time"].values)))


def h_cross_multiindex(B, cls="MCA", p=2, q=2):
    """cross-set model fitted along two sample dimensions; each field of new data alone, on another sample grid of another size"""
    X = xr.DataArray(B.array((2, 2, p), "x"), dims=("t1", "t2", "x"), coords={"t1": ["a", "b"], "t2": [0, 1], "x": XS[:p]}, name="v_x")
    Y = xr.DataArray(B.array((2, 2, q), "y"), dims=("t1", "t2", "y"), coords={"t1": ["a", "b"], "t2": [0, 1], "y": XS[:q]}, name="v_y")
    model = M.cross(cls, n_modes=2, use_pca=False)
    model.fit(X, Y, ("t1", "t2"))
    B.covers("BaseModelCrossSet.transform (two sample dims, one field at a time)")
    Xn = xr.DataArray(B.array((1, 3, p), "xn"), dims=("t1", "t2", "x"), coords={"t1": ["z"], "t2": [7, 8, 9], "x": XS[:p]}, name="v_xn")
    Yn = xr.DataArray(B.array((1, 2, q), "yn"), dims=("t1", "t2", "y"), coords={"t1": ["w"], "t2": [5, 6], "y": XS[:q]}, name="v_yn")
    for nm, kw, new, t2 in (("X", {"X": Xn}, Xn, [7, 8, 9]), ("Y", {"Y": Yn}, Yn, [5, 6])):
        t = B.completes(f"transform({nm}_new only) runs", lambda kw=kw: model.transform(**kw))
        if t is None:
            continue
        B.check(f"transform({nm} only): sample dims restored", set(t.dims) == {"t1", "t2", "mode"}, f"dims {t.dims}")
        if set(t.dims) == {"t1", "t2", "mode"}:
            B.check(f"transform({nm} only): labels are those of the new {nm}", list(t["t1"].values) == list(new["t1"].values) and list(t["t2"].values) == t2, f"t1={list(t['t1'].values)} t2={list(t['t2'].values)}")
            B.check(f"transform({nm} only): no NaN", not _has_nan(B, t), "NaN entries in the result")
    # the fitted scores keep their own labels afterwards
    s1, s2 = model.scores()
    B.check("scores() keep the training labels afterwards", list(s1["t2"].values) == [0, 1] and list(s2["t2"].values) == [0, 1], f"{list(s1['t2'].values)} {list(s2['t2'].values)}")


def configs(tier):
    out = []

    def add(fn, key, **params):
        cfg = {"key": key, "fn": fn, "params": params}
        if fn == "h_cross":
            cfg["options"] = {"full_rank": True}
        if fn == "h_multi":
            cfg["options"] = {"full_rank": True, "eigvalsh_psd": True}
        out.append(cfg)

    labs = ["disjoint", "overlap", "repeated"] if tier == "quick" else list(LABELS)
    for cls in ("EOF", "ComplexEOF"):
        for lab in labs:
            if cls == "ComplexEOF" and lab != "disjoint" and tier == "quick":
                continue
            add("h_single", f"{cls}|{lab}", cls=cls, labels=lab)
    add("h_single", "EOF|standardize|overlap", cls="EOF", labels="overlap", flags={"standardize": True})
    add("h_single", "EOF|3d|coslat|disjoint", cls="EOF", labels="disjoint", layout="3d", p=4, flags={"use_coslat": True})
    add("h_single", "EOF|normalized|disjoint", cls="EOF", labels="disjoint", normalized=True)
    add("h_single", "EOF|m1|disjoint", cls="EOF", labels="disjoint", m=1)
    add("h_multiindex", "EOF|two sample dims")
    out.append({"key": "EOF|dataset|new data lists its variables in another order", "fn": "h_dataset_variable_order", "params": {}})
    out.append({"key": "MCA|two sample dims|one field at a time", "fn": "h_cross_multiindex", "params": {"cls": "MCA"}, "options": {"full_rank": True}})
    add("h_multi", "multi.CCA|new data")
    add("h_index_kind_mismatch", "EOF|fit MultiIndex sample, new plain index")
    add("h_missing_new", "EOF|new data: repeated labels + one missing sample", labels=(100, 100, 101), missing=(1,))
    add("h_missing_new", "EOF|new data: unique labels + first sample missing", labels=(100, 101, 102), missing=(0,))
    add("h_missing_new", "EOF|new data: repeated labels + missing duplicate last", labels=(5, 6, 6), missing=(2,))
    for power in (1, 2):
        add("h_single", f"EOFRotator|power{power}|disjoint", cls="EOF", labels="disjoint", p=3, rot={"n_modes": 2, "power": power})
    if tier == "thorough":
        add("h_single", "ComplexEOFRotator|power1|overlap", cls="ComplexEOF", labels="overlap", p=3, m=2, rot={"n_modes": 2, "power": 1})
    for alpha in (1.0, 0.5):
        add("h_cross", f"CPCCA|alpha={alpha}|disjoint", cls="CPCCA", alpha=alpha, labels="disjoint")
    add("h_cross", "CPCCA|alpha=0.0|pca=1|overlap", cls="CPCCA", alpha=0.0, use_pca=True, labels="overlap", m=2)
    add("h_cross", "MCA|repeated", cls="MCA", labels="repeated")
    if tier == "thorough":
        for lab in LABELS:
            add("h_single", f"EOF|m4|{lab}", cls="EOF", labels=lab, m=4, n=5, p=3)
            add("h_single", f"EOF|3d|{lab}", cls="EOF", labels=lab, layout="3d", p=4)
            add("h_single", f"EOFRotator|power2|m3|{lab}", cls="EOF", labels=lab, p=3, rot={"n_modes": 2, "power": 2})
            add("h_cross", f"CPCCA|alpha=0.5|pca|{lab}", cls="CPCCA", alpha=0.5, use_pca=True, labels=lab)
        add("h_single", "EOF|k3|disjoint", cls="EOF", labels="disjoint", n=5, p=3, k=3)
        add("h_cross", "CPCCARotator|alpha=0.0|power1|repeated", cls="CPCCA", alpha=0.0, labels="repeated", m=2, rot={"n_modes": 2, "power": 1})
        add("h_cross", "CCA|disjoint", cls="CCA", labels="disjoint")
        add("h_cross", "RDA|disjoint", cls="RDA", labels="disjoint")
    for alpha in (1.0, 0.5):
        add("h_cross", f"CPCCARotator|alpha={alpha}|power1|disjoint", cls="CPCCA", alpha=alpha, labels="disjoint", m=2, rot={"n_modes": 2, "power": 1})
    add("h_cross", "CPCCARotator|alpha=0.5|power2|overlap", cls="CPCCA", alpha=0.5, labels="overlap", m=2, rot={"n_modes": 2, "power": 2})
    add("h_cross", "MCARotator|power1|disjoint", cls="MCA", labels="disjoint", m=2, rot={"n_modes": 2, "power": 1})
    return out
