"""C10 - named methods coincide with the general method at their special parameter values."""
from __future__ import annotations

import numpy as np
import xarray as xr

from .common import *  # noqa
from . import models as M

EXPLANATION = (
    "Pairs of real fits on the same symbolic data: MCA / CCA / RDA against CPCCA with alpha = 1 / 0 / (0, 1); a Complex model fed real data against the real model; "
    "ExtendedEOF with a single embedding against EOF; MCA of a field with itself against EOF of that field. In the first three cases both fits hand entrywise identical "
    "matrices to the stubs, so the obligations (equal singular values, components, scores, stored parameters apart from alpha) are term identities for all values; for "
    "MCA(X, X) the SVD input is verified to be the Gram matrix of EOF's input and the textbook relation (V, s^2/(n-1)) is applied."
)
FUNCTIONS = ["MCA / CCA / RDA.__init__ (pinned alpha)", "CPCCA._fit_algorithm", "Whitener (identity for alpha=1)", "PCA (identity for use_pca=False)", "ComplexEOF / EOF._fit_algorithm", "ExtendedEOF._fit_algorithm (embedding=1)"]
BOUNDS = {"quick": {"n": "4..5", "p,q": "2..3", "k": 2}, "thorough": {"n": "4..5", "p,q": "2..3", "k": "2..3"}}
OUTSIDE = ["SparsePCA without penalty == EOF (iterative variable-projection solver, convergence is not a bounded property)", "two-view multi.CCA == cross.CCA (multi.CCA builds dask block matrices and a generalised eigh: not encoded)", "PCA pre-reduction keeping all modes == no pre-reduction (the two SVD inputs are related by unitary changes of basis, which the syntactic equivariance check does not recognise; run in the thorough tier and reported INCONCLUSIVE if not proved)"]
TRUSTED = ["right singular vectors of M are eigenvectors of M^H M with eigenvalues s^2 (used only after the engine verified syntactically that the second input is that Gram matrix)"]
ASSUMPTIONS = ["full rank"]


def h_named(B, named="MCA", n=4, p=2, q=2, k=2, cplx=False, use_pca=False):
    X = da2d(B, "x", n, p, cplx, feat="x")
    Y = da2d(B, "y", n, q, cplx, feat="y")
    alpha = {"MCA": 1.0, "CCA": 0.0, "RDA": [0.0, 1.0], "ComplexMCA": 1.0, "ComplexCCA": 0.0, "ComplexRDA": [0.0, 1.0]}[named]
    gen = "ComplexCPCCA" if named.startswith("Complex") else "CPCCA"
    m1 = M.cross(named, n_modes=k, use_pca=use_pca, n_pca_modes="all").fit(X, Y, "time")
    m2 = M.cross(gen, n_modes=k, alpha=alpha, use_pca=use_pca, n_pca_modes="all").fit(X, Y, "time")
    B.covers(f"{named} vs {gen}(alpha={alpha})")
    B.eq(f"{named} == {gen}(alpha={alpha}): singular values", m1.data["singular_values"], m2.data["singular_values"])
    for i in range(2):
        B.eq(f"{named} == {gen}: components{i + 1}", m1.components()[i], m2.components()[i])
        B.eq(f"{named} == {gen}: scores{i + 1}", m1.scores()[i], m2.scores()[i])
    # every public result method, not only the primary outputs
    metrics = ["squared_covariance_fraction", "cross_correlation_coefficients", "correlation_coefficients_X", "correlation_coefficients_Y", "fraction_variance_X_explained_by_X", "fraction_variance_Y_explained_by_Y", "fraction_variance_Y_explained_by_X"]
    if not cplx:
        for mname in metrics:
            def call(m_, mname=mname):
                try:
                    return ("ok", getattr(m_, mname)())
                except (NotImplementedError, ValueError) as e:
                    return ("refused", type(e).__name__)
            r1, r2 = call(m1), call(m2)
            B.check(f"{named} == {gen}: {mname}() is available for both or refused by both", r1[0] == r2[0], f"{named}: {r1[0]} ({r1[1] if r1[0] != 'ok' else ''}), {gen}: {r2[0]} ({r2[1] if r2[0] != 'ok' else ''})")
            if r1[0] == "ok" and r2[0] == "ok":
                B.eq(f"{named} == {gen}: {mname}()", r1[1], r2[1])
        Xn = da2d(B, "xn", 2, p, cplx, feat="x", scoords=[100, 101])
        B.eq(f"{named} == {gen}: predict(X_new)", m1.predict(Xn), m2.predict(Xn))
    p1 = {k_: v for k_, v in m1.get_params().items() if k_ != "alpha"}
    p2 = {k_: v for k_, v in m2.get_params().items() if k_ != "alpha"}
    B.check("stored parameters equal apart from alpha", p1 == p2, f"{p1} vs {p2}")
    B.check(f"{named} does not store alpha; the general model stores it", "alpha" not in m1.get_params() and "alpha" in m2.get_params(), str(m1.get_params().keys()))


_NONDEFAULT = {"n_modes": 3, "standardize": True, "use_coslat": True, "check_nans": False, "use_pca": False, "n_pca_modes": 2, "pca_init_rank_reduction": 0.7, "compute": False,
               "sample_name": "s", "feature_name": "f", "solver": "full", "random_state": 5, "solver_kwargs": {"n_oversamples": 3}, "padding": "none", "decay_factor": 0.5, "center": False}


def h_ctor(B, named="CCA"):
    """every constructor argument of the named method, set to a non-default value, must arrive in the general model unchanged"""
    import inspect

    import xeofs.cross as xc

    gen = ("ComplexCPCCA" if named.startswith("Complex") else "HilbertCPCCA" if named.startswith("Hilbert") else "CPCCA")
    alpha = {"MCA": 1.0, "CCA": 0.0, "RDA": [0.0, 1.0]}[named.replace("Complex", "").replace("Hilbert", "")]
    N, G = getattr(xc, named), getattr(xc, gen)
    sig = [p_ for p_ in inspect.signature(N.__init__).parameters if p_ not in ("self", "kwargs", "args")]
    kw = {}
    for p_ in sig:
        B.check(f"{named}: constructor argument {p_} has a non-default test value", p_ in _NONDEFAULT, "add a value to _NONDEFAULT")
        if p_ in _NONDEFAULT:
            kw[p_] = _NONDEFAULT[p_]
    B.covers(f"{named}.__init__ -> {gen}.__init__")
    m1 = N(**kw)
    m2 = G(alpha=alpha, **kw)
    p1 = {k_: v for k_, v in m1.get_params().items() if k_ != "alpha"}
    p2 = {k_: v for k_, v in m2.get_params().items() if k_ != "alpha"}
    diff = {k_: (p1.get(k_), p2.get(k_)) for k_ in set(p1) | set(p2) if repr(p1.get(k_)) != repr(p2.get(k_))}
    B.check(f"{named}(**non-default arguments) stores the parameters of {gen}(alpha={alpha}, **same arguments)", not diff, f"differences (named, general): {diff}")
    lost = {k_: (kw[k_], p1.get(k_)) for k_ in kw if k_ in p1 and repr(p1[k_]) != repr(kw[k_]) and not isinstance(p1[k_], (list, tuple))}
    B.check(f"{named}: every argument is stored as given", not lost, f"given vs stored: {lost}")


def h_complex_on_real(B, n=4, p=3, k=2, cross=False):
    if not cross:
        X = da2d(B, "x", n, p)
        m1 = M.single("EOF", n_modes=k, solver="full").fit(X, "time")
        m2 = M.single("ComplexEOF", n_modes=k, solver="full").fit(X, "time")
        B.covers("ComplexEOF on real data")
        B.eq("ComplexEOF(real data) == EOF: singular values", m2.data["norms"], m1.data["norms"])
        B.eq("ComplexEOF(real data) == EOF: components", m2.components(), m1.components())
        B.eq("ComplexEOF(real data) == EOF: scores", m2.scores(), m1.scores())
        B.eq("ComplexEOF(real data) == EOF: explained variance", m2.explained_variance(), m1.explained_variance())
    else:
        X, Y = da2d(B, "x", n, 2, feat="x"), da2d(B, "y", n, 2, feat="y")
        m1 = M.cross("MCA", n_modes=2, use_pca=False).fit(X, Y, "time")
        m2 = M.cross("ComplexMCA", n_modes=2, use_pca=False).fit(X, Y, "time")
        B.covers("ComplexMCA on real data")
        B.eq("ComplexMCA(real data) == MCA: singular values", m2.data["singular_values"], m1.data["singular_values"])
        B.eq("ComplexMCA(real data) == MCA: scores1", m2.scores()[0], m1.scores()[0])
        B.eq("ComplexMCA(real data) == MCA: components2", m2.components()[1], m1.components()[1])


def h_eeof1(B, n=4, p=2, k=2, flags=None):
    flags = dict(flags or {})
    X = da2d(B, "x", n, p)
    if flags.get("standardize"):
        oracle_matrix(X, "time", standardize=True, B=B)  # assumes every std above the clipping floor (the property's own quantifier)
    m1 = M.single("EOF", n_modes=k, solver="full", **flags).fit(X, "time")
    B.covers("ExtendedEOF with embedding=1")
    m2 = B.completes("ExtendedEOF(embedding=1).fit runs", lambda: M.single("ExtendedEOF", n_modes=k, tau=1, embedding=1, solver="full", **flags).fit(X, "time"))
    if m2 is None:
        return
    B.eq("ExtendedEOF(embedding=1) == EOF: singular values", m2.data["norms"], m1.data["norms"])
    B.eq("ExtendedEOF(embedding=1) == EOF: explained variance", m2.explained_variance(), m1.explained_variance())
    B.eq("ExtendedEOF(embedding=1) == EOF: scores", m2.scores(), m1.scores())
    c2 = m2.components()
    if "embedding" in c2.dims:
        c2 = c2.isel(embedding=0, drop=True)
    B.eq("ExtendedEOF(embedding=1) == EOF: components", c2, m1.components())


def h_mca_self(B, n=4, p=2, k=2, flags=None):
    flags = dict(flags or {})
    X = da2d(B, "x", n, p)
    if flags.get("standardize"):
        oracle_matrix(X, "time", standardize=True, B=B)
    m1 = M.single("EOF", n_modes=k, solver="full", **flags).fit(X, "time")
    m2 = M.cross("MCA", n_modes=k, use_pca=False, solver="full", **flags).fit(X, X, "time")
    B.covers("MCA(X, X) vs EOF(X)")
    B.eq("MCA(X,X): singular values == EOF explained variances", m2.data["singular_values"].data, m1.explained_variance().data)
    c1 = m1.components()
    cx, cy = m2.components()
    # equal up to the sign of each mode (the two routes fix signs in different spaces): compare sign-free products
    for i in range(k):
        a, b = cx.isel(mode=i).data, c1.isel(mode=i).data
        B.eq(f"MCA(X,X): pattern {i + 1} == EOF pattern {i + 1} up to sign (outer products)", np.outer(a, a) if not B.sym else _outer(a, a), np.outer(b, b) if not B.sym else _outer(b, b))
    B.eq("MCA(X,X): left and right patterns coincide up to sign (outer products)", _outer(cx.isel(mode=0).data, cx.isel(mode=0).data), _outer(cy.isel(mode=0).data, cy.isel(mode=0).data))


def _outer(a, b):
    return a.reshape((-1, 1)) * b.reshape((1, -1))


def h_pca_all(B, n=4, p=2, q=2, alpha=1.0, cplx=False, hilbert=False):
    X, Y = da2d(B, "x", n, p, cplx, feat="x"), da2d(B, "y", n, q, cplx, feat="y")
    cls = "HilbertCPCCA" if hilbert else ("ComplexCPCCA" if cplx else "CPCCA")
    kw = {"padding": "none"} if hilbert else {}
    m1 = M.cross(cls, n_modes=2, alpha=alpha, use_pca=False, **kw).fit(X, Y, "time")
    m2 = M.cross(cls, n_modes=2, alpha=alpha, use_pca=True, n_pca_modes="all", **kw).fit(X, Y, "time")
    B.covers("PCA pre-reduction keeping all modes")
    B.eq("PCA(all modes) == no PCA: singular values", m2.data["singular_values"], m1.data["singular_values"])
    # patterns up to the sign / phase of each mode: compare the projectors c c^H
    for i in range(2):
        a = m2.components()[0].isel(mode=i).data
        b = m1.components()[0].isel(mode=i).data
        B.eq(f"PCA(all modes) == no PCA: X pattern {i + 1} (projector)", a.reshape((-1, 1)) * np.conjugate(a).reshape((1, -1)), b.reshape((-1, 1)) * np.conjugate(b).reshape((1, -1)))


def configs(tier):
    out = []

    def add(fn, key, **params):
        out.append({"key": key, "fn": fn, "params": params, "options": {"full_rank": True, "budget_s": 100 if tier == "quick" else 900}})

    for nm in ("MCA", "CCA", "RDA"):
        add("h_named", f"{nm} vs CPCCA", named=nm)
        add("h_named", f"{nm} vs CPCCA|p3q2|pca", named=nm, n=5, p=3, q=2, use_pca=True)
    add("h_named", "ComplexMCA vs ComplexCPCCA", named="ComplexMCA", cplx=True)
    add("h_named", "ComplexCCA vs ComplexCPCCA", named="ComplexCCA", cplx=True)
    for nm in ("MCA", "CCA", "RDA", "ComplexMCA", "ComplexCCA", "ComplexRDA", "HilbertMCA", "HilbertCCA", "HilbertRDA"):
        out.append({"key": f"constructor arguments|{nm}", "fn": "h_ctor", "params": {"named": nm}})
    add("h_complex_on_real", "ComplexEOF on real data")
    add("h_complex_on_real", "ComplexMCA on real data", cross=True)
    add("h_eeof1", "ExtendedEOF(embedding=1) vs EOF")
    add("h_mca_self", "MCA(X,X) vs EOF(X)")
    add("h_mca_self", "MCA(X,X) vs EOF(X)|n4p3", n=4, p=3)
    # the equalities are claimed for every preprocessing flag: a normalisation that depends on a flag on one side only breaks them
    add("h_mca_self", "MCA(X,X) vs EOF(X)|n4p3|standardize", n=4, p=3, flags={"standardize": True})
    add("h_eeof1", "ExtendedEOF(embedding=1) vs EOF|n4p3|standardize", n=4, p=3, flags={"standardize": True})
    # not included: ExtendedEOF(embedding=1, center=False) - the inner EOF of ExtendedEOF always centres the embedded matrix (C01 requires
    # that), so with center=False the pair differs by design of the class; see DESIGN.md 9.7
    add("h_pca_all", "PCA all modes vs no PCA|complex|alpha=1 (decided at witnesses only)", cplx=True)
    # the Hilbert variants transform the PC scores AFTER the PCA step: whitening then acts on correlated columns
    add("h_pca_all", "PCA all modes vs no PCA|Hilbert|alpha=0|n6 (decided at witnesses only)", hilbert=True, alpha=0.0, n=6)  # n=6: with n=4 the canonical correlations are all 1 (p+q >= n-1) and the patterns are not unique
    if tier == "thorough":
        add("h_pca_all", "PCA all modes vs no PCA|alpha=1")
        add("h_pca_all", "PCA all modes vs no PCA|alpha=0.5", alpha=0.5)
    return out
