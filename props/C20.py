"""C20 - bootstrap members are sign-aligned, reproducible EOF analyses of resamples."""
from __future__ import annotations

import contextlib
import itertools

import numpy as np
import xarray as xr

from .common import *  # noqa
from . import models as M

EXPLANATION = (
    "numpy.random.default_rng inside xeofs.validation.bootstrapper is replaced by a stub generator that records the seed it receives and returns ENUMERATED concrete "
    "resample index vectors (all multisets with at least two distinct samples for n = 3, a covering set for n = 4); the data stay symbolic. Obligations per member: "
    "its explained variance, total variance and components equal an independent EOF analysis of exactly those rows of the model's preprocessed matrix, its scores are "
    "the projection of the ORIGINAL samples on its components, components orthonormal, variances non-negative, descending and not above the member's total variance; after "
    "the sign alignment the member scores correlate non-negatively with the model scores on every path; the member dimension has the requested length; the seed reaches the generator unchanged."
)
FUNCTIONS = ["EOFBootstrapper.fit", "EOF._fit_algorithm", "EOF.transform", "np.sign of the score correlation"]
BOUNDS = {"quick": {"n": "3..4", "p": 2, "k": 2, "n_bootstraps": "1..2", "resamples": "all multisets with >= 2 distinct rows for n=3 (as single members) + a covering set for n=4"}, "thorough": {"n_bootstraps": "1..3", "layouts": "2-D, 3-D, custom names"}}
OUTSIDE = ["equal streams for equal seeds is numpy's contract (trusted); only the forwarding of the seed is checked", "solver accuracy of the randomised member fits (idealised)"]
TRUSTED = ["SVD contract", "numpy.random.Generator.choice (replaced by the enumerating stub)"]
ASSUMPTIONS = ["resamples contain at least two distinct samples (otherwise the member matrix is zero after centring)"]


class _Rng:
    def __init__(self, plan, log):
        self.plan = list(plan)
        self.log = log

    def choice(self, a, size=None, replace=True, **kw):
        idx = self.plan.pop(0)
        self.log.append(("choice", a, size, replace))
        return np.array(idx)


class _RandomProxy:
    def __init__(self, plan, log):
        self.plan, self.log = plan, log

    def default_rng(self, seed=None):
        self.log.append(("seed", seed))
        return _Rng(self.plan, self.log)

    def __getattr__(self, name):
        return getattr(np.random, name)


class _NpProxy:
    def __init__(self, plan, log):
        self.random = _RandomProxy(plan, log)

    def __getattr__(self, name):
        return getattr(np, name)


@contextlib.contextmanager
def fixed_resamples(plan, log):
    import xeofs.validation.bootstrapper as bs

    old = bs.np
    bs.np = _NpProxy(plan, log)
    try:
        yield
    finally:
        bs.np = old


def h_boot(B, n=3, p=2, k=2, plan=((0, 0, 1),), seed=7, names=None, layout="2d", flags=None):
    from xeofs.validation import EOFBootstrapper

    flags = dict(flags or {})
    kw = {}
    if names:
        kw = {"sample_name": names[0], "feature_name": names[1]}
    X, dim, fd = M.make_input(B, layout, n, p, False, flags)
    model = M.single("EOF", n_modes=k, solver="full", **flags, **kw).fit(X, dim)
    sname, fname = model.sample_name, model.feature_name
    log = []
    nb = len(plan)
    B.covers("EOFBootstrapper.fit")
    bs = EOFBootstrapper(n_bootstraps=nb, seed=seed)
    with fixed_resamples([list(ix) for ix in plan], log):
        ok = B.completes("EOFBootstrapper.fit runs", lambda: bs.fit(model) or True)
    if ok is None:
        return
    seeds = [x[1] for x in log if x[0] == "seed"]
    B.check("the seed reaches default_rng unchanged", seeds == [seed], f"default_rng received {seeds}")
    calls = [x for x in log if x[0] == "choice"]
    B.check("one resample with replacement of n out of n per member", len(calls) == nb and all(c[1] == n and c[2] == n and c[3] is True for c in calls), f"{calls}")
    ev = bs.data["explained_variance"]
    B.check("member dimension has the requested length", ev.sizes.get("n") == nb and bs.data["components"].sizes.get("n") == nb, f"{dict(ev.sizes)}")
    inp = model.data["input_data"]
    msc = model.data["scores"]
    for i, idx in enumerate(plan):
        res = inp.isel({sname: list(idx)}).assign_coords({sname: inp[sname]})
        ref = M.single("EOF", n_modes=k, solver="full", standardize=False, use_coslat=False, **kw).fit(res, sname)
        tag = f"member {i + 1} (rows {list(idx)})"
        B.eq(f"{tag}: explained variance == EOF of the resample", ev.isel(n=i, drop=True), ref.data["explained_variance"])
        B.eq(f"{tag}: total variance == that of the resample", bs.data["total_variance"].isel(n=i, drop=True), ref.data["total_variance"])
        V = bs.data["components"].isel(n=i, drop=True).transpose(fname, "mode").data
        Vr = ref.data["components"].transpose(fname, "mode").data
        S = bs.data["scores"].isel(n=i, drop=True).transpose(sname, "mode").data
        Sr = ref.transform(inp).transpose(sname, "mode").data if False else None
        B.eq(f"{tag}: components orthonormal", V.T @ V, np.eye(k))
        for m_ in range(k):
            B.eq(f"{tag}: component {m_ + 1} == resample EOF {m_ + 1} up to sign", V[:, m_].reshape((-1, 1)) * V[:, m_].reshape((1, -1)), Vr[:, m_].reshape((-1, 1)) * Vr[:, m_].reshape((1, -1)))
        Mx = inp.transpose(sname, fname).data
        Mc = Mx - res.transpose(sname, fname).data.mean(axis=0)
        B.eq(f"{tag}: scores == original samples (centred with the resample mean) projected on the member components", S, Mc @ V)
        evi = ev.isel(n=i, drop=True).data
        B.ge(f"{tag}: variances non-negative", evi, np.zeros(k), products=True)
        if k > 1:
            B.ge(f"{tag}: variances descending", evi[:-1], evi[1:], products=True)
        mS = msc.transpose(sname, "mode").data
        corr = (S * mS).mean(axis=0) / S.std(axis=0) / mS.std(axis=0)  # the alignment statistic of the code, re-evaluated on the ALIGNED member scores
        for m_ in range(k):
            B.ge(f"{tag}: mode {m_ + 1} correlates non-negatively with the model's mode", corr[m_], 0.0)
    comps = B.completes("bootstrapper.components() runs", lambda: bs.components())
    if comps is not None:
        want = set(d for d in X.dims if d not in (dim if isinstance(dim, tuple) else (dim,))) | {"mode", "n"}
        B.check("components(): feature dims + mode + n", set(comps.dims) == want, f"{comps.dims}")


def configs(tier):
    out = []

    def add(key, **params):
        out.append({"key": key, "fn": "h_boot", "params": params, "options": {"sign": "stub", "budget_s": 100 if tier == "quick" else 900}})

    n = 3
    multisets = [ms for ms in itertools.combinations_with_replacement(range(n), n) if len(set(ms)) >= 2]
    for ms in multisets:
        add(f"n3|resample={list(ms)}", n=3, plan=(ms,))
    add("n3|unsorted resample [2,0,2]", n=3, plan=((2, 0, 2),))
    add("n3|two members", n=3, plan=((0, 1, 1), (2, 2, 0)))
    for ms in ((0, 1, 2, 3), (0, 0, 1, 3), (3, 3, 3, 1), (1, 2, 2, 1)):
        add(f"n4|resample={list(ms)}", n=4, plan=(ms,))
    add("n4|names=s,f", n=4, plan=((0, 2, 2, 3),), names=("s", "f"))
    add("n4|standardize", n=4, plan=((0, 1, 1, 3),), flags={"standardize": True})
    add("n4|seed=0", n=4, plan=((0, 1, 2, 2),), seed=0)
    add("n4|center=False", n=4, plan=((0, 1, 1, 3),), flags={"center": False})  # members are EOF analyses (centred) of the resample whatever the base model's flag
    add("n4|center=False|standardize", n=4, plan=((0, 2, 2, 3),), flags={"center": False, "standardize": True})
    if tier == "thorough":
        add("n4|3d layout", n=4, p=4, plan=((1, 1, 0, 3),), layout="3d")
        add("n4|three members", n=4, plan=((0, 1, 1, 3), (2, 2, 0, 1), (3, 0, 3, 0)))
    return out
