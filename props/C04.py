"""C04 - transform(training data) == scores()."""
from __future__ import annotations

import numpy as np
import xarray as xr

from .common import *  # noqa
from . import models as M

EXPLANATION = (
    "For each transform-capable model class and configuration the real fit() and transform() are executed on one symbolic data set "
    "(every entry a distinct symbol); obligation: transform(X_fit)[label, mode] == scores()[label, mode] for all labels and modes, with "
    "equal dims, labels and mode order, for all values of the data (and weights)."
)
FUNCTIONS = [
    "BaseModelSingleSet.fit/transform/scores", "EOF._fit_algorithm/_transform_algorithm", "Preprocessor.fit_transform/transform/inverse_transform_scores(_unseen)",
    "Scaler", "Stacker", "Sanitizer", "Concatenator", "Decomposer.fit", "get_deterministic_sign_multiplier",
    "EOFRotator._fit_algorithm/_transform_algorithm/_sort_by_variance", "BaseModelCrossSet.fit/transform", "CPCCA._fit_algorithm/_transform_algorithm",
    "CPCCARotator.fit/transform", "Whitener", "PCA", "_SVD.fit_transform", "_fractional_matrix_power", "multi.CCA.fit/transform", "POP", "SparsePCA",
]
BOUNDS = {
    "quick": {"n_samples": "3..5", "n_features": "2..3 (2x2 grids for 3-D inputs)", "n_modes": "<=2", "unwinding": "promax/varimax replaced by contract stub", "paths_per_config": 48},
    "thorough": {"n_samples": "3..6", "n_features": "2..4", "n_modes": "<=3", "paths_per_config": 512},
}
OUTSIDE = ["IEEE rounding", "randomised-solver accuracy (idealised as exact truncated SVD)", "exact ties in the sign convention", "std below the 1.2e-7 clip (that branch is explored as its own path; obligations hold there too or are reported)"]
TRUSTED = ["SVD contract: M = U S V^H, U^H U = I, V^H V = I, s descending >= 0", "promax contract: Xrot = X R, R unitary (power 1) / invertible (power > 1)"]
ASSUMPTIONS = []


def h_single(B, cls="EOF", n=4, p=2, k=2, flags=None, weights=False, layout="2d", normalized=False, solver="full", rot=None, witness=None):
    flags = dict(flags or {})
    cplx = cls in ("ComplexEOF",)
    X, dim, fdims = M.make_input(B, layout, n, p, cplx, flags)
    X = M.extreme_witness(X, witness)
    w = M.make_weights(B, X, fdims) if weights else None
    model = M.single(cls, n_modes=k, solver=solver, **flags)
    model.fit(X, dim, weights=w)
    if rot:
        model = M.rotate(model, **rot)
    B.covers(f"{type(model).__name__}.fit", f"{type(model).__name__}.transform")
    tr = B.completes("transform(X_fit) runs", lambda: model.transform(X, normalized=normalized))
    if tr is None:
        return
    sc = model.scores(normalized=normalized)
    B.eq("transform(X_fit)==scores()", tr, sc)


def h_cross(B, cls="CPCCA", n=4, p=2, q=2, k=2, alpha=1.0, use_pca=False, flags=None, rot=None, normalized=False, cplx=False, weights=False):
    flags = dict(flags or {})
    X = da2d(B, "x", n, p, cplx, feat="x")
    Y = da2d(B, "y", n, q, cplx, feat="y")
    model = M.cross(cls, n_modes=k, alpha=alpha, use_pca=use_pca, n_pca_modes="all", **flags)
    if weights:
        wx = xr.DataArray(B.array((p,), "wx", positive=True), dims=("x",), coords={"x": X["x"].values})
        wy = xr.DataArray(B.array((q,), "wy", positive=True), dims=("y",), coords={"y": Y["y"].values})
        model.fit(X, Y, "time", weights_X=wx, weights_Y=wy)
    else:
        model.fit(X, Y, "time")
    if rot:
        model = M.rotate_cross(model, **rot)
    B.covers(f"{type(model).__name__}.fit", f"{type(model).__name__}.transform")
    tr = B.completes("transform(X_fit,Y_fit) runs", lambda: model.transform(X, Y, normalized=normalized))
    if tr is None:
        return
    sx, sy = model.scores(normalized=normalized)
    B.eq("transform(X)==scores1", tr[0], sx)
    B.eq("transform(Y)==scores2", tr[1], sy)
    # one field at a time (a single DataArray comes back)
    tx = B.completes("transform(X=X_fit) alone runs", lambda: model.transform(X=X, normalized=normalized))
    if tx is not None:
        B.eq("transform(X alone)==scores1", tx, sx)
    ty = B.completes("transform(Y=Y_fit) alone runs", lambda: model.transform(Y=Y, normalized=normalized))
    if ty is not None:
        B.eq("transform(Y alone)==scores2", ty, sy)


def h_multi(B, n=4, ps=(2, 2), k=2):
    import xeofs.multi as xm

    Xs = [da2d(B, f"x{i}", n, p, feat=f"f{i}") for i, p in enumerate(ps)]
    model = xm.CCA(n_modes=k, pca=False)
    model.fit(Xs, "time")
    B.covers("multi.CCA.fit", "multi.CCA.transform")
    tr = B.completes("multi.CCA.transform(views) runs", lambda: model.transform(Xs))
    if tr is None:
        return
    sc = model.scores()
    for i, (a, b) in enumerate(zip(tr, sc)):
        B.eq(f"transform(view{i})==scores[{i}]", a, b)


def configs(tier):
    out = []

    def add(fn, key, **params):
        cfg = {"key": key, "fn": fn, "params": params}
        if fn == "h_cross" and "rank-deficient" not in key:
            cfg["options"] = {"full_rank": True}
        if fn == "h_multi":
            cfg["options"] = {"full_rank": True, "eigvalsh_psd": True, "budget_s": 120 if tier == "quick" else 900}
        out.append(cfg)

    shapes = [(4, 2, 2), (3, 3, 2)] if tier == "quick" else [(4, 2, 2), (3, 3, 2), (5, 3, 3), (3, 4, 2)]
    for cls in ("EOF", "ComplexEOF"):
        for (n, p, k) in shapes:
            for fl in flagsets(tier):
                for w in (False, True):
                    if cls == "ComplexEOF" and (fl or w) and tier == "quick":
                        continue
                    add("h_single", f"{cls}|n{n}p{p}k{k}|{keyof(fl)}|w{int(w)}", cls=cls, n=n, p=p, k=k, flags=fl, weights=w)
        add("h_single", f"{cls}|normalized", cls=cls, n=4, p=2, k=2, normalized=True)
        add("h_single", f"{cls}|randomized", cls=cls, n=4, p=3, k=2, solver="randomized")
    for wkey, wit in (("scale 1e8", {"scale": 1e8}), ("offset 1e7", {"offset": 1e7})):
        out.append({"key": f"EOF|n4p3k2|standardize|witness {wkey}", "fn": "h_single", "params": {"cls": "EOF", "n": 4, "p": 3, "k": 2, "flags": {"standardize": True}, "witness": wit}, "options": {"float_rtol": 1e-5}})
    for layout in ("3d-coslat", "dataset", "list", "multiindex"):
        add("h_single", f"EOF|layout={layout}", cls="EOF", n=3, p=4 if layout != "multiindex" else 2, k=2, layout=layout, flags={"use_coslat": True} if layout == "3d-coslat" else {})
    for cls in ("EOF", "ComplexEOF"):
        for power in (1, 2):
            add("h_single", f"{cls}Rotator|power{power}", cls=cls, n=4, p=3, k=2, rot={"n_modes": 2, "power": power})
            if tier == "thorough" or (cls == "EOF" and power == 1):
                # three rotated modes: all six re-orderings after rotation are paths (rare ones reached through the witness corpus)
                add("h_single", f"{cls}Rotator|power{power}|k3", cls=cls, n=5, p=3, k=3, rot={"n_modes": 3, "power": power})
        add("h_single", f"{cls}Rotator|power1|normalized", cls=cls, n=4, p=3, k=2, rot={"n_modes": 2, "power": 1}, normalized=True)
    # cross-set family
    alphas = [1.0, 0.5, 0.0]
    for alpha in alphas:
        for use_pca in (False, True):
            add("h_cross", f"CPCCA|alpha={alpha}|pca={int(use_pca)}", cls="CPCCA", n=4, p=2, q=2, k=2, alpha=alpha, use_pca=use_pca)
    add("h_cross", "CPCCA|alpha=[0.5,1.0]|p3q2", cls="CPCCA", n=5, p=3, q=2, k=2, alpha=[0.5, 1.0], use_pca=False)
    add("h_cross", "CPCCA|alpha=0.5|pca=[0,1]", cls="CPCCA", n=4, p=2, q=2, k=2, alpha=0.5, use_pca=[False, True])  # per-field flags
    add("h_cross", "MCA|pca=[1,0]", cls="MCA", n=4, p=2, q=2, k=2, use_pca=[True, False])
    add("h_cross", "CPCCA|alpha=0.5|normalized", cls="CPCCA", n=4, p=2, q=2, k=2, alpha=0.5, use_pca=False, normalized=True)
    for cls in ("MCA", "CCA", "RDA"):
        add("h_cross", f"{cls}|pca=0", cls=cls, n=4, p=2, q=2, k=2, use_pca=False)
        if tier == "thorough":
            add("h_cross", f"{cls}|pca=1|p3", cls=cls, n=5, p=3, q=2, k=2, use_pca=True)
    if tier == "thorough":
        add("h_cross", "ComplexCPCCA|alpha=0.5", cls="ComplexCPCCA", n=4, p=2, q=2, k=2, alpha=0.5, use_pca=False, cplx=True)
    add("h_cross", "ComplexMCA", cls="ComplexMCA", n=4, p=2, q=2, k=2, use_pca=False, cplx=True)
    add("h_cross", "ComplexMCA|pca=1", cls="ComplexMCA", n=4, p=2, q=2, k=2, use_pca=True, cplx=True)
    add("h_cross", "CPCCA|alpha=0.5|weights|standardize", cls="CPCCA", n=4, p=2, q=2, k=2, alpha=0.5, use_pca=False, weights=True, flags={"standardize": True})
    # cross-set rotators
    for alpha in alphas:
        for power in (1, 2):
            add("h_cross", f"CPCCARotator|alpha={alpha}|power{power}", cls="CPCCA", n=4, p=2, q=2, k=2, alpha=alpha, use_pca=False, rot={"n_modes": 2, "power": power})
    add("h_cross", "MCARotator|power1", cls="MCA", n=4, p=2, q=2, k=2, use_pca=False, rot={"n_modes": 2, "power": 1})
    add("h_cross", "CPCCARotator|alpha=0.5|pca=1", cls="CPCCA", n=4, p=2, q=2, k=2, alpha=0.5, use_pca=True, rot={"n_modes": 2, "power": 1})
    if tier == "thorough":
        for alpha in (0.25, 0.75):
            add("h_cross", f"CPCCA|alpha={alpha}|pca=0", cls="CPCCA", n=4, p=2, q=2, k=2, alpha=alpha, use_pca=False)
            add("h_cross", f"CPCCARotator|alpha={alpha}|power1", cls="CPCCA", n=4, p=2, q=2, k=2, alpha=alpha, use_pca=False, rot={"n_modes": 2, "power": 1})
        add("h_cross", "CPCCA|alpha=0.5|n5p3q3k3", cls="CPCCA", n=5, p=3, q=3, k=3, alpha=0.5, use_pca=False)
        add("h_cross", "MCARotator|power3", cls="MCA", n=4, p=2, q=2, k=2, use_pca=False, rot={"n_modes": 2, "power": 3})
        add("h_single", "EOFRotator|power3", cls="EOF", n=4, p=3, k=2, rot={"n_modes": 2, "power": 3})
    # multi-set CCA (scipy eigh / eigvalsh / np.cov under contract stubs, dask block matrices executed synchronously)
    add("h_multi", "multi.CCA|2views", n=4, ps=(2, 2), k=2)
    if tier == "thorough":
        add("h_multi", "multi.CCA|3views", n=5, ps=(2, 2, 2), k=2)
    return out
