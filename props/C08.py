"""C08 - centering, standardisation and weights mean exactly what the options say."""
from __future__ import annotations

import numpy as np
import xarray as xr

from .common import *  # noqa
from . import models as M

EXPLANATION = (
    "Metamorphic pairs of real fits on one symbolic data set with symbolic per-feature shifts c_j, positive scales a_j, positive weights w_j and a global "
    "factor c != 0. The two fits hand matrices to the SVD stub that are entrywise identical polynomials (shift / affine / weight / coslat cases) or a scalar "
    "multiple (global factor, SVD equivariance); obligations for all values: singular values, explained variance, components and scores of the second fit "
    "equal those of the first (scores * c, singular values * |c|, explained variance * c^2, ratios unchanged for the global factor)."
)
FUNCTIONS = ["Scaler.fit/transform", "compute_sqrt_cos_lat_weights", "sqrt_cos_lat_weights", "extract_latitude_dimension", "feature_ones_like", "BaseModelSingleSet.fit", "BaseModelCrossSet.fit", "EOF.explained_variance_ratio", "CPCCA.squared_covariance_fraction"]
BOUNDS = {
    "quick": {"n": "4", "p": "2..4", "k": 2, "latitude names": "lat, latitude (all accepted names in thorough)"},
    "thorough": {"n": "4..5", "p": "2..4", "k": "2..3"},
}
OUTSIDE = ["rounding for scales spanning many orders of magnitude", "std below the clip floor"]
TRUSTED = ["SVD equivariance under scalar multiples (U, |c| s, V) with LAPACK's per-mode sign idealised as consistent; the sign convention is verified in C15"]
ASSUMPTIONS = ["a_j > 0, w_j > 0, c != 0, std_j > 1.2e-7"]


def _fit(cls, X, dim, k, flags, weights=None):
    m = M.single(cls, n_modes=k, solver="full", **flags)
    m.fit(X, dim, weights=weights)
    return m


def _same(B, tag, m1, m2, cs=1, cabs=1):
    B.eq(f"{tag}: singular values", m2.data["norms"], m1.data["norms"] * cabs)
    B.eq(f"{tag}: explained variance", m2.explained_variance(), m1.explained_variance() * (cabs * cabs))
    B.eq(f"{tag}: explained variance ratio", m2.explained_variance_ratio(), m1.explained_variance_ratio())
    B.eq(f"{tag}: components", m2.components(), m1.components())
    B.eq(f"{tag}: scores", m2.scores(), m1.scores() * cs)


def h_shift(B, cls="EOF", n=4, p=2, k=2, standardize=False, layout="2d", offset_scale=None):
    cplx = cls == "ComplexEOF"
    X, dim, fd = M.make_input(B, layout, n, p, cplx, {})
    fdims = [d for d in X.dims if d != "time"]
    shp = tuple(X.sizes[d] for d in fdims)
    c = xr.DataArray(B.array(shp, "c", cplx), dims=fdims, coords={d: X[d] for d in fdims})
    if offset_scale:
        # same symbolic generality (c is arbitrary), but the WITNESS offset is huge compared with the spread of the data
        # (a pressure field in Pa: background 1e7 x the anomalies) - still far inside double precision
        c = c * float(offset_scale)
    flags = {"standardize": standardize}
    if standardize:
        a = xr.DataArray(B.array(shp, "a", positive=True), dims=fdims, coords={d: X[d] for d in fdims})
        X2 = X * a + c
        oracle_matrix(X, "time", True, True, B=B)
        oracle_matrix(X2.transpose(*X.dims), "time", True, True, B=B)
    else:
        X2 = X + c
    B.covers("Scaler.fit", "Scaler.transform")
    m1 = _fit(cls, X, dim, k, flags)
    m2 = _fit(cls, X2.transpose(*X.dims), dim, k, flags)
    _same(B, "positive affine rescaling per feature" if standardize else "shift per feature", m1, m2)


def h_weights(B, cls="EOF", n=4, p=2, k=2, flags=None, layout="2d", reorder=False):
    flags = dict(flags or {})
    cplx = cls == "ComplexEOF"
    X, dim, fd = M.make_input(B, layout, n, p, cplx, {})
    w = M.make_weights(B, X, fd)
    if flags.get("standardize"):
        oracle_matrix(X, "time", True, True, B=B)
    if reorder:
        # the same weights stored with their coordinates in another order: xarray aligns by LABEL
        def rev(wd):
            d0 = [d for d in wd.dims][0]
            return wd.isel({d0: slice(None, None, -1)})

        w_given = [rev(x) for x in w] if isinstance(w, list) else (xr.Dataset({v: rev(w[v]) for v in w.data_vars}) if isinstance(w, xr.Dataset) else rev(w))
    else:
        w_given = w
    m1 = _fit(cls, X, dim, k, flags, weights=w_given)
    # pre-multiplied data: weights act after centring/standardisation, so pre-multiply the prepared anomalies
    if flags.get("standardize"):
        Xa = (X - X.mean("time")) / X.std("time")
        m2 = _fit(cls, (Xa * w).transpose(*X.dims), dim, k, {"center": False})
    else:
        m2 = _fit(cls, (X * w).transpose(*X.dims), dim, k, dict(flags))
    B.covers("Scaler._process_weights")
    B.eq("weights == pre-multiplied data: singular values", m1.data["norms"], m2.data["norms"])
    B.eq("weights == pre-multiplied data: components", m1.components(), m2.components())
    B.eq("weights == pre-multiplied data: scores", m1.scores(), m2.scores())
    # applying the weights twice or not at all would change the decomposed matrix
    B.eq("weights == pre-multiplied data: decomposed matrix", m1.data["input_data"], m2.data["input_data"])


def h_coslat(B, n=4, p=4, k=2, latname="lat", flags=None, order=None, lats=(-60.0, 35.0), lat_dtype=None):
    flags = dict(flags or {})
    p2 = p // 2
    sizes = {"time": n, latname: 2, "lon": p2}
    order = order or ("time", latname, "lon")
    X = xr.DataArray(B.array(tuple(sizes[d] for d in order), "x"), dims=order, coords={"time": list(range(n)), latname: (np.asarray(lats, dtype=lat_dtype) if lat_dtype else list(lats)), "lon": XS[:p2]}, name="v_x")
    w = np.sqrt(np.cos(np.deg2rad(X[latname])).clip(0, 1))
    if flags.get("standardize"):
        oracle_matrix(X, "time", True, True, B=B)
    m1 = _fit("EOF", X, "time", k, dict(flags, use_coslat=True))
    m2 = _fit("EOF", X, "time", k, dict(flags), weights=w)
    B.covers("compute_sqrt_cos_lat_weights", "extract_latitude_dimension")
    B.eq("use_coslat == weights sqrt(cos(lat)): singular values", m1.data["norms"], m2.data["norms"])
    B.eq("use_coslat == weights sqrt(cos(lat)): components", m1.components(), m2.components())
    B.eq("use_coslat == weights sqrt(cos(lat)): scores", m1.scores(), m2.scores())
    B.eq("use_coslat == weights sqrt(cos(lat)): decomposed matrix", m1.data["input_data"], m2.data["input_data"])


def h_scale(B, cls="EOF", n=4, p=2, k=2, flags=None):
    flags = dict(flags or {})
    cplx = cls == "ComplexEOF"
    X, dim, fd = M.make_input(B, "2d", n, p, cplx, {})
    c = B.scalar("c", nonzero=True)
    m1 = _fit(cls, X, dim, k, flags)
    m2 = _fit(cls, X * c, dim, k, flags)
    pos = bool(c > 0)
    cabs = c if pos else -c
    B.covers("EOF._fit_algorithm (global scale)")
    _same(B, "global factor c", m1, m2, cs=c, cabs=cabs)


def h_cross(B, what="weights", n=4, p=2, q=2, cls="MCA", alpha=1.0):
    X = da2d(B, "x", n, p, feat="x")
    Y = da2d(B, "y", n, q, feat="y")
    mk = lambda: M.cross(cls, n_modes=2, alpha=alpha, use_pca=False)  # noqa
    B.covers("BaseModelCrossSet.fit (weights / scale)")
    if what == "weights":
        wx = xr.DataArray(B.array((p,), "wx", positive=True), dims=("x",), coords={"x": X.x})
        m1 = mk().fit(X, Y, "time", weights_X=wx)
        m2 = mk().fit(X * wx, Y, "time")
        B.eq("cross: weights_X == pre-multiplied X: singular values", m1.data["singular_values"], m2.data["singular_values"])
        B.eq("cross: weights_X == pre-multiplied X: scores1", m1.scores()[0], m2.scores()[0])
        B.eq("cross: weights_X == pre-multiplied X: scores2", m1.scores()[1], m2.scores()[1])
    elif what == "shift":
        cx = xr.DataArray(B.array((p,), "cx"), dims=("x",), coords={"x": X.x})
        m1 = mk().fit(X, Y, "time")
        m2 = mk().fit(X + cx, Y, "time")
        B.eq("cross: shift of X: singular values", m1.data["singular_values"], m2.data["singular_values"])
        B.eq("cross: shift of X: scores1", m1.scores()[0], m2.scores()[0])
        B.eq("cross: shift of X: components2", m1.components()[1], m2.components()[1])
    elif what == "scale":
        c = B.scalar("c", nonzero=True)
        m1 = mk().fit(X, Y, "time")
        m2 = mk().fit(X * c, Y * c, "time")
        B.eq("cross: (cX, cY): singular values * c^2", m2.data["singular_values"], m1.data["singular_values"] * (c * c))
        B.eq("cross: (cX, cY): scores1 * c", m2.scores()[0], m1.scores()[0] * c)
        B.eq("cross: (cX, cY): scores2 * c", m2.scores()[1], m1.scores()[1] * c)
        B.eq("cross: (cX, cY): components1 unchanged", m2.components()[0], m1.components()[0])
        if B.tier == "thorough":
            # the fraction squared_covariance / total_squared_covariance is unchanged because numerator and denominator both
            # scale with c^4 (stated as two polynomial obligations; the quotient itself left the reducer stuck at 6000 terms)
            c4 = c * c * c * c
            B.eq("cross: (cX, cY): squared covariance * c^4", m2.data["squared_covariance"], m1.data["squared_covariance"] * c4)
            B.eq("cross: (cX, cY): total squared covariance * c^4", m2.data["total_squared_covariance"], m1.data["total_squared_covariance"] * c4)


def configs(tier):
    out = []

    def add(fn, key, **params):
        cfg = {"key": key, "fn": fn, "params": params}
        if fn == "h_cross":
            cfg["options"] = {"full_rank": True, "budget_s": 150 if tier == "quick" else 300}
        out.append(cfg)

    for cls in ("EOF", "ComplexEOF"):
        add("h_shift", f"{cls}|shift", cls=cls)
        add("h_scale", f"{cls}|global scale", cls=cls)
        add("h_weights", f"{cls}|weights", cls=cls)
    add("h_shift", "EOF|affine|standardize", standardize=True, p=3)
    add("h_shift", "EOF|shift|3d", layout="3d", p=4)
    add("h_shift", "EOF|shift|n3p3", n=3, p=3)
    for key_, st in (("EOF|shift|witness offset 1e7 x spread", False), ("EOF|affine|standardize|witness offset 1e7 x spread", True)):
        out.append({"key": key_, "fn": "h_shift", "params": {"standardize": st, "p": 3, "offset_scale": 1e7}, "options": {"float_rtol": 1e-5}})
    add("h_shift", "EOF|affine|standardize|3d", standardize=True, layout="3d", p=4)
    add("h_weights", "EOF|weights|standardize", flags={"standardize": True}, p=3)
    add("h_weights", "EOF|weights|3d", layout="3d", p=4)
    add("h_weights", "EOF|weights stored in reversed coordinate order", p=3, reorder=True)
    add("h_weights", "EOF|weights stored in reversed coordinate order|3d", layout="3d", p=4, reorder=True)
    add("h_weights", "EOF|weights|dataset", layout="dataset", p=4)
    add("h_scale", "EOF|global scale|standardize-off|center-off", flags={"center": False})
    names = ["lat", "latitude"] if tier == "quick" else ["lat", "latitude", "lats", "Latitude", "LAT"]  # names accepted by extract_latitude_dimension
    for nm in names:
        add("h_coslat", f"coslat|{nm}", latname=nm)
    add("h_coslat", "coslat|lat|standardize", flags={"standardize": True})
    # latitudes are degrees whatever their range: a small near-equatorial domain, descending order, the poles
    add("h_coslat", "coslat|lat|near-equatorial degrees", lats=(-1.5, 0.75))
    add("h_coslat", "coslat|lat|descending", lats=(80.0, -10.0))
    add("h_coslat", "coslat|lat|float32 coordinate incl. the pole", lats=(90.0, 10.0), lat_dtype="float32")  # cos(float32 90 deg) is -4.4e-8
    add("h_coslat", "coslat|lat|float32 coordinate", lats=(-45.0, 30.0), lat_dtype="float32")
    if tier == "thorough":
        add("h_coslat", "coslat|lat|pole", lats=(90.0, 0.0))
    add("h_coslat", "coslat|lat|order=lon,time,lat", order=("lon", "time", "lat"))
    for what in ("weights", "shift", "scale"):
        add("h_cross", f"MCA|{what}", what=what)
    add("h_cross", "CPCCA|alpha=0.5|weights", what="weights", cls="CPCCA", alpha=0.5)
    if tier == "thorough":
        add("h_cross", "CPCCA|alpha=0.5|shift", what="shift", cls="CPCCA", alpha=0.5)
        add("h_cross", "CCA|shift", what="shift", cls="CCA")
        add("h_shift", "EOF|affine|standardize|n5p3k3", standardize=True, n=5, p=3, k=3)
    return out
