"""C16 - fractional whitening and PCA reduction are exact, invertible changes of basis."""
from __future__ import annotations

from fractions import Fraction

import numpy as np
import xarray as xr

from .common import *  # noqa
from xeofs.preprocessing.pca import PCA
from xeofs.preprocessing.whitener import Whitener

EXPLANATION = (
    "The real Whitener / PCA classes run on a symbolic centred data matrix (n > p) under the SVD / inv contract stubs. Obligations for all values: with "
    "K = (XT)^H (XT)/n the covariance of the whitened data: K == I (alpha=0), K == C (alpha=1), K^q == C for alpha = 1/q (so K is the alpha-th power of C); "
    "inverse_transform_data(transform(X)) == X; transform_components / inverse_transform_components are mutually inverse on arbitrary symbolic patterns; "
    "T and Tinv are Hermitian and T Tinv == I; PCA: V^H V == I, transform(X) == X V, inverse_transform_data(transform(X)) == X with all modes kept, pattern maps "
    "mutually inverse within the retained subspace, X V_k == U_k diag(s_k) (leading principal subspace)."
)
FUNCTIONS = ["Whitener.fit/transform/inverse_transform_data/transform_components/inverse_transform_components", "_fractional_matrix_power", "_SVD.fit_transform", "PCA.fit/transform/inverse_transform_data/transform_components/inverse_transform_components", "SVD.fit_transform"]
BOUNDS = {"quick": {"n": "4..5", "p": "2..3", "alpha": "{0, 1/2, 1, 1/4 (real)}", "PCA modes": "all, 2 of 3"}, "thorough": {"n": "4..6", "p": "2..3", "alpha": "{0, 1/4, 1/3, 1/2, 1}", "complex": "p=2"}}
OUTSIDE = ["condition numbers / rounding", "dask back-end (C12)", "rank-deficient covariance (pinv branch of the whitener): configurations assume full rank", "alpha values that are not 0, 1 or 1/q are covered through the same code path only"]
TRUSTED = ["SVD contract for the covariance decomposition", "inv contract (A B = B A = I)"]
ASSUMPTIONS = ["every singular value of the covariance exceeds 1e-12 (full column rank)", "a syntactically Hermitian matrix handed to the SVD is positive semi-definite (here always a Gram matrix X^H X / n), so its left and right singular vectors coincide"]


def _centred(B, n, p, cplx=False, illcond=False, scale=None):
    X = B.array((n, p), "x", cplx)
    if scale:
        X = X * float(scale)  # same symbolic generality; the WITNESS has the amplitude of a field in small units
    if illcond:
        # same symbolic generality (image under an invertible concrete map), but the WITNESS is ill-conditioned
        # (cond ~ 1e5, inside the property's range up to 1e6): columns nearly collinear
        mix = np.eye(p)
        mix[0, 1:] = 1.0
        for j in range(1, p):
            mix[j, j] = 1e-5
        X = X @ mix
    X = X - X.mean(axis=0)
    return xr.DataArray(X, dims=("sample", "feature"), coords={"sample": list(range(n)), "feature": list(range(p))}, name="v_x")


def _H(A):
    return np.conjugate(A).T


def h_whitener(B, n=4, p=2, alpha=0.5, cplx=False, q=None, illcond=False, scale=None):
    X = _centred(B, n, p, cplx, illcond, scale)
    W = Whitener(alpha=alpha)
    B.covers("Whitener.fit", "_fractional_matrix_power")
    XT = W.fit_transform(X)
    Xd, XTd = X.data, XT.data
    C = B.alias(_H(Xd) @ Xd / n)  # the very matrix the whitener decomposed (its entries are let-bound by the SVD stub)
    if alpha == 1:
        K = _H(XTd) @ XTd / n
    else:
        T_ = W.T.transpose("feature", "mode").data
        K = _H(T_) @ C @ T_  # == (XT)^H (XT)/n  because XT = X T  (checked below as 'transform(new data) == X_new T')
    back = W.inverse_transform_data(XT)
    B.eq("inverse_transform_data(transform(X)) == X", back.transpose("sample", "feature").data, Xd)
    Pt = xr.DataArray(B.array((p, 2), "P", cplx), dims=("feature", "mode"), coords={"feature": list(range(p)), "mode": [1, 2]})
    a = W.inverse_transform_components(W.transform_components(Pt))
    b = W.transform_components(W.inverse_transform_components(Pt))
    B.eq("inverse_transform_components(transform_components(P)) == P", a.transpose("feature", "mode").data, Pt.data)
    B.eq("transform_components(inverse_transform_components(P)) == P", b.transpose("feature", "mode").data, Pt.data)
    if alpha != 1:
        T = W.T.transpose("feature", "mode").data
        Ti = W.Tinv.transpose("mode", "feature").data
        B.eq("T Tinv == I", T @ Ti, np.eye(p))
        B.eq("T is Hermitian", T, _H(T))
        B.eq("Tinv^H is an inverse of T as well (so Tinv is Hermitian, by uniqueness of the inverse)", _H(Ti) @ T, np.eye(p))
        # new data go through the same map
        Xn = xr.DataArray(B.array((2, p), "xn", cplx), dims=("sample", "feature"), coords={"sample": [100, 101], "feature": list(range(p))})
        B.eq("transform(new data) == X_new T", W.transform(Xn).transpose("sample", "feature").data, Xn.data @ T)
    # the (expensive) covariance obligation last
    if alpha == 0:
        B.eq("alpha=0: covariance of whitened data == I", K, np.eye(p))
    elif alpha == 1:
        B.eq("alpha=1: covariance unchanged", K, C)
        B.eq("alpha=1: data unchanged", XTd, Xd)
    else:
        qq = q or int(round(1 / alpha))
        P_ = K
        for _ in range(qq - 1):
            P_ = P_ @ K
        B.eq(f"alpha=1/{qq}: (covariance of whitened data)^{qq} == C", P_, C)


def h_whitener_refit(B, n=4, p=2, alpha=0.0):
    """one Whitener object fitted twice (as a re-fitted CCA / CPCCA model does): everything must belong to the second fit"""
    A = _centred(B, n, p)
    X = B.array((n, p), "z")
    X = X - X.mean(axis=0)
    X = xr.DataArray(X, dims=("sample", "feature"), coords={"sample": list(range(n)), "feature": list(range(p))}, name="v_z")
    W = Whitener(alpha=alpha)
    AT = W.fit_transform(A)
    W.inverse_transform_data(AT)  # the inverse map of the first fit has been used
    B.covers("Whitener.fit (second fit on the same object)")
    XT = W.fit_transform(X)
    T = W.T.transpose("feature", "mode").data
    Ti = W.Tinv.transpose("mode", "feature").data
    B.eq("after a second fit: T Tinv == I", T @ Ti, np.eye(p))
    B.eq("after a second fit: inverse_transform_data(transform(X)) == X", W.inverse_transform_data(XT).transpose("sample", "feature").data, X.data)
    Pt = xr.DataArray(B.array((p, 2), "P"), dims=("feature", "mode"), coords={"feature": list(range(p)), "mode": [1, 2]})
    B.eq("after a second fit: inverse_transform_components(transform_components(P)) == P", W.inverse_transform_components(W.transform_components(Pt)).transpose("feature", "mode").data, Pt.data)
    fresh = Whitener(alpha=alpha)
    FT = fresh.fit_transform(X)
    B.eq("after a second fit: transform == that of a fresh whitener", XT.data, FT.data)


def h_pca(B, n=4, p=3, k="all", cplx=False):
    X = _centred(B, n, p, cplx)
    P = PCA(n_modes=k, use_pca=True, compute_eagerly=True, solver_kwargs={})
    B.covers("PCA.fit", "SVD.fit_transform", "_SVD.fit_transform")
    Z = P.fit_transform(X)
    V = P.V.transpose("feature", "mode").data
    kk = V.shape[1]
    B.eq("PCA basis orthonormal: V^H V == I", _H(V) @ V, np.eye(kk))
    B.eq("transform(X) == X V", Z.transpose("sample", "feature").data, X.data @ V)
    if kk == min(n, p) and p <= n:
        back = P.inverse_transform_data(Z)
        B.eq("all modes kept: inverse_transform_data(transform(X)) == X", back.transpose("sample", "feature").data, X.data)
    Q = xr.DataArray(B.array((kk, 2), "Q", cplx), dims=("feature", "mode"), coords={"feature": list(range(1, kk + 1)), "mode": [1, 2]})
    up = P.inverse_transform_components(Q)
    down = P.transform_components(up)
    B.eq("transform_components(inverse_transform_components(Q)) == Q (retained subspace)", down.transpose("feature", "mode").data, Q.data)
    B.eq("inverse_transform_components(Q) == V Q", up.transpose("feature", "mode").data, V @ Q.data)
    if B.tier == "thorough":
        # leading principal subspace: Z = X V has orthogonal columns (expensive: quadratic in the data)
        Zd = Z.transpose("sample", "feature").data
        G = _H(Zd) @ Zd
        for i in range(kk):
            for j in range(i + 1, kk):
                B.eq(f"scores of PCs {i + 1},{j + 1} are orthogonal", G[i, j], 0.0)
    ident = PCA(use_pca=False).fit_transform(X)
    B.eq("use_pca=False is the identity", ident.data, X.data)


def configs(tier):
    out = []

    def add(fn, key, **params):
        o = {"full_rank": True, "hermitian_psd_inputs": True, "budget_s": 80 if tier == "quick" else 900}
        if params.get("q"):
            o["budget_s"] = 240  # K^q == C for q >= 3 is attempted last and usually stays INCONCLUSIVE; the other obligations take seconds
        if params.get("illcond"):
            o["float_rtol"] = 1e-4  # replay tolerance for the witness with condition number 1e5 (rounding ~ cond^2 * eps)
        out.append({"key": key, "fn": fn, "params": params, "options": o})

    for alpha in (0, 1, 0.5):
        add("h_whitener", f"Whitener|alpha={alpha}|n4p2", n=4, p=2, alpha=alpha)
    add("h_whitener", "Whitener|alpha=0|complex|n4p2", n=4, p=2, alpha=0, cplx=True)
    add("h_whitener", "Whitener|alpha=0|ill-conditioned witness (cond 1e5)|n4p2", n=4, p=2, alpha=0, illcond=True)
    add("h_whitener", "Whitener|alpha=0|witness amplitude 2e-5|n4p2", n=4, p=2, alpha=0, scale=2e-5)
    add("h_whitener", "Whitener|alpha=0|witness amplitude 1e4|n4p2", n=4, p=2, alpha=0, scale=1e4)
    add("h_whitener_refit", "Whitener|alpha=0|second fit on the same object", alpha=0.0)
    add("h_pca", "PCA|all|n4p3", n=4, p=3, k="all")
    add("h_pca", "PCA|k=2|n4p3", n=4, p=3, k=2)
    add("h_pca", "PCA|all|complex|n4p2", n=4, p=2, k="all", cplx=True)
    if tier == "thorough":
        add("h_whitener", "Whitener|alpha=0.25|n4p2", n=4, p=2, alpha=0.25, q=4)
        add("h_whitener", "Whitener|alpha=0|n5p3", n=5, p=3, alpha=0)
        add("h_whitener", "Whitener|alpha=0.5|complex|n4p2", n=4, p=2, alpha=0.5, cplx=True)
        add("h_whitener", "Whitener|alpha=0.5|n5p3", n=5, p=3, alpha=0.5)
        add("h_whitener", "Whitener|alpha=1/3|n4p2", n=4, p=2, alpha=1 / 3, q=3)
        add("h_pca", "PCA|k=2|n5p3", n=5, p=3, k=2)
        add("h_whitener_refit", "Whitener|alpha=0.5|second fit on the same object", alpha=0.5)
    return out
