"""C11 - rotation re-expresses the retained subspace without changing what it represents."""
from __future__ import annotations

import numpy as np
import xarray as xr

from .common import *  # noqa
from . import models as M

EXPLANATION = (
    "(i) Kernel level: the real _varimax (max_iter = 1, 2; compute=False) and _promax (power 1..3) run on a symbolic loading matrix under the SVD / inv stubs with the "
    "additive 2.2e-16 stabiliser idealised to 0: R^H R == I and R R^H == I, Xrot == X R; Promax: Xrot == X rot_mat, phi (L L^H) == I (i.e. phi == L^-1 L^-H). The bound of two "
    "iterations is argued to extend: R is overwritten by a fresh U VT in every iteration. (ii) Model level with _promax replaced by exactly that contract: for EOFRotator / "
    "ComplexEOFRotator / CPCCARotator / MCARotator the reconstruction from the rotated scores equals the base model's reconstruction from the same number of modes, the "
    "stored arrays are sorted by descending explained variance (squared covariance) on every path, Varimax keeps normalised scores orthonormal and conserves the summed explained variance."
)
FUNCTIONS = ["_varimax", "_promax", "promax (apply_ufunc wrapper)", "EOFRotator._fit_algorithm / _sort_by_variance / _compute_rot_mat_inv_trans", "CPCCARotator._fit_algorithm", "BaseModel.compute (post-compute sorting)"]
BOUNDS = {"quick": {"kernel": "p=3 loadings x m=2 modes, max_iter 1..2", "models": "n=4, p=3, k=2 rotated modes, power 1..2"}, "thorough": {"kernel": "p=3..4, m=2..3", "models": "k=2..3, power 1..3"}}
OUTSIDE = ["the Varimax criterion is not lower than before rotation (convergence/monotonicity of an iterative optimiser - no bounded encoding)", "zero communalities (h = 0): the stabiliser is idealised to 0 and h > 0 assumed", "sign convention (verified in C15)"]
TRUSTED = ["SVD / inv contracts"]
ASSUMPTIONS = ["communalities h_j > 0"]


def _H(A):
    return np.conjugate(A).T


def h_varimax(B, p=3, m=2, iters=1, cplx=False):
    from xeofs.linalg._numpy._rotation import _varimax

    X = B.array((p, m), "L", cplx)
    B.covers("_varimax")
    Xrot, R = _varimax(X, max_iter=iters, compute=False)
    B.eq("R^H R == I", _H(R) @ R, np.eye(m))
    B.eq("R R^H == I", R @ _H(R), np.eye(m))
    B.eq("Xrot == X R", Xrot, X @ R)


def h_promax(B, p=3, m=2, power=2, cplx=False):
    from xeofs.linalg._numpy._rotation import _promax

    X = B.array((p, m), "L", cplx)
    B.covers("_promax")
    Xrot, rot, phi = _promax(X, power=power, max_iter=1, compute=False)
    B.eq("Xrot == X rot_mat", Xrot, X @ rot)
    if power == 1:
        B.eq("power 1: rot_mat unitary", _H(rot) @ rot, np.eye(m))
        B.eq("power 1: phi == I", phi, np.eye(m))


def h_rotator(B, cls="EOF", n=4, p=3, k=2, power=1, flags=None, refit=False, scale=None):
    flags = dict(flags or {})
    cplx = cls == "ComplexEOF"
    X = da2d(B, "x", n, p, cplx)
    if scale:
        X = X * float(scale)  # same symbolic generality; the WITNESS has the amplitude of a field in small (large) units
        X.name = "v_x"
    base = M.single(cls, n_modes=p if n > p else k, solver="full", **flags).fit(X, "time")
    if refit:
        # the rotator object has been fitted on another model before: everything below must hold for its second fit as well
        import xeofs.single as xs_

        other = M.single(cls, n_modes=p if n > p else k, solver="full", **flags).fit(da2d(B, "z", n, p, cplx), "time")
        rot = getattr(xs_, type(base).__name__ + "Rotator")(n_modes=k, power=power)
        rot.fit(other)
        rot.fit(base)
    else:
        rot = M.rotate(base, n_modes=k, power=power)
    B.covers(f"{type(rot).__name__}._fit_algorithm")
    rec_rot = rot.inverse_transform(rot.scores())
    rec_base = base.inverse_transform(base.scores().sel(mode=slice(1, k)))
    B.eq("reconstruction from rotated scores == reconstruction from the same k unrotated modes", rec_rot, rec_base)
    ev = rot.explained_variance().data
    if k > 1:
        B.ge("rotated modes in descending order of explained variance", ev[:-1], ev[1:])
    B.eq("norms^2 == explained_variance * (n-1)", rot.data["norms"].data * rot.data["norms"].data, ev * (n - 1))
    comps = rot.data["components"].transpose("feature", "mode").data
    B.eq("rotated components have unit norm", np.real(np.sum(comps * np.conjugate(comps), axis=0)), np.ones(k))
    if power == 1:
        Sn = rot.scores(normalized=True).transpose("time", "mode").data
        B.eq("Varimax: normalised rotated scores orthonormal", _H(Sn) @ Sn, np.eye(k))
        B.eq("Varimax: summed explained variance conserved", np.sum(ev), np.sum(base.explained_variance().sel(mode=slice(1, k)).data))
        Rm = rot.data["rotation_matrix"].data
        B.eq("Varimax: rotation matrix unitary", _H(Rm) @ Rm, np.eye(k))


def h_cross_rotator(B, cls="MCA", alpha=1.0, power=1, n=4, p=2, q=2):
    X = da2d(B, "x", n, p, feat="x")
    Y = da2d(B, "y", n, q, feat="y")
    base = M.cross(cls, n_modes=2, alpha=alpha, use_pca=False).fit(X, Y, "time")
    rot = M.rotate_cross(base, n_modes=2, power=power)
    B.covers(f"{type(rot).__name__}._fit_algorithm")
    r1 = rot.inverse_transform(*rot.scores())
    r0 = base.inverse_transform(*base.scores())
    B.eq("cross: reconstruction of X from rotated scores == from unrotated modes", r1[0], r0[0])
    B.eq("cross: reconstruction of Y from rotated scores == from unrotated modes", r1[1], r0[1])
    sc = rot.data["squared_covariance"].data
    B.ge("cross: rotated modes in descending order of squared covariance", sc[:-1], sc[1:])


def configs(tier):
    out = []

    def add(fn, key, options=None, **params):
        o = {"budget_s": 100 if tier == "quick" else 900}
        o.update(options or {})
        out.append({"key": key, "fn": fn, "params": params, "options": o})

    ker = {"idealise_eps": True, "abs": "fresh"}
    for it in (1, 2):
        add("h_varimax", f"kernel|_varimax|p3m2|iter{it}", options=ker, iters=it)
    add("h_varimax", "kernel|_varimax|complex|p2m2|iter1", options=ker, p=2, cplx=True)
    for pw in (1, 2):
        add("h_promax", f"kernel|_promax|p3m2|power{pw}", options=ker, power=pw)
    for cls in ("EOF", "ComplexEOF"):
        for pw in (1, 2):
            add("h_rotator", f"{cls}Rotator|power{pw}", cls=cls, power=pw)
    add("h_rotator", "EOFRotator|power1|standardize", cls="EOF", power=1, flags={"standardize": True})
    # absolute floors / cut-offs somewhere in the normalisation only bind for fields in small (large) units
    add("h_rotator", "EOFRotator|power1|witness amplitude 1e-5", cls="EOF", power=1, scale=1e-5)
    add("h_rotator", "EOFRotator|power2|witness amplitude 1e-5", cls="EOF", power=2, scale=1e-5)
    add("h_rotator", "EOFRotator|power1|witness amplitude 1e5", cls="EOF", power=1, scale=1e5)
    # three rotated modes: the re-ordering after rotation can be any of the 6 permutations (incl. the two 3-cycles)
    add("h_rotator", "EOFRotator|power1|n5p3k3", cls="EOF", power=1, n=5, p=3, k=3)
    add("h_rotator", "EOFRotator|power1|n5p3k3|second fit of the rotator object", cls="EOF", power=1, n=5, p=3, k=3, refit=True)
    out[-1]["options"]["budget_s"] = 160 if tier == "quick" else 900  # 32 paths + the witness corpus: 120 s alone, more on a loaded machine (the corpus witnesses must be reached)
    add("h_cross_rotator", "MCARotator|power1", options={"full_rank": True})
    add("h_cross_rotator", "CPCCARotator|alpha=0.5|power1", options={"full_rank": True}, cls="CPCCA", alpha=0.5)
    add("h_cross_rotator", "MCARotator|power2", options={"full_rank": True}, power=2)  # the oblique branch (R^-H) of the cross-set rotators
    if tier == "thorough":
        add("h_cross_rotator", "CPCCARotator|alpha=0.5|power2", options={"full_rank": True}, cls="CPCCA", alpha=0.5, power=2)
        add("h_varimax", "kernel|_varimax|p4m3|iter1", options=ker, p=4, m=3)
        add("h_promax", "kernel|_promax|p3m2|power3", options=ker, power=3)
        add("h_rotator", "EOFRotator|power3", cls="EOF", power=3)
    return out
