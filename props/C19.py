"""C19 - OPA returns uncorrelated series ordered by their own decorrelation time."""
from __future__ import annotations

import numpy as np
import xarray as xr

from .common import *  # noqa
from . import models as M

EXPLANATION = (
    "The real OPA.fit runs on a symbolic time-ordered data matrix under three SVD stubs and two inverse stubs. Obligations for all values: the score series are "
    "mutually orthogonal with equal norm; the filter patterns are bi-orthogonal to the optimally persistent patterns (V^T W == I, in PC space and in feature space); "
    "each reported decorrelation time equals the trapezoidal sum, up to tau_max, of the lagged autocorrelation of that very score series with the normalisation the "
    "model uses (c(tau) = sum_t p_t p_{t+tau}/(n - tau - 1)); the values are descending. The naming configuration repeats the fit with other dimension names."
)
FUNCTIONS = ["OPA._fit_algorithm", "OPA._Ctau", "OPA._compute_matrix_inverse", "Decomposer.fit", "EOF (PCA pre-processing)"]
BOUNDS = {"quick": {"n": "5..6", "p": 2, "n_pca_modes": 2, "tau_max": "1..2"}, "thorough": {"n": "6..7", "p": "2..3", "n_pca_modes": "2..3", "tau_max": "1..2"}}
OUTSIDE = ["optimality of the first mode over all linear combinations (Rayleigh-Ritz, trusted)", "tau_max up to n/3 for long series"]
TRUSTED = ["SVD / inv contracts"]
ASSUMPTIONS = ["full rank PCs"]


def _acf_sum(p, n, tmax):
    def c(tau):
        if tau == 0:
            return np.sum(p * p) / (n - 1)
        return np.sum(p[: n - tau] * p[tau:]) / (n - tau - 1)

    tot = c(0) / 2
    for tau in range(1, tmax):
        tot = tot + c(tau)
    tot = tot + c(tmax) / 2
    return tot, c(0)


def h_opa(B, n=5, p=2, npca=2, tau_max=1, names=None, flags=None, witness_scale=None):
    kw = dict(flags or {})
    if names:
        kw.update({"sample_name": names[0], "feature_name": names[1]})
    X = da2d(B, "x", n, p)
    if witness_scale:
        # same symbolic generality; the WITNESS has the amplitude of e.g. a precipitation flux in kg m-2 s-1
        X = X * float(witness_scale)
        X.name = "v_x"
    model = M.single("OPA", n_modes=npca, tau_max=tau_max, n_pca_modes=npca, solver="full", **kw)
    r = B.completes("OPA.fit runs", lambda: model.fit(X, "time"))
    if r is None:
        return
    B.covers("OPA._fit_algorithm")
    sname = model.sample_name
    P = model.data["scores"].transpose(sname, "mode").data
    lam = model.data["decorrelation_time"].data
    k = P.shape[1]
    G = P.T @ P
    for i in range(k):
        # zero time mean: only then 'orthogonal' below means 'uncorrelated' and c(tau) is an autocovariance
        B.eq(f"score series {i + 1} has zero time mean", np.sum(P[:, i]), 0.0, scale_of=[P])
        for j in range(i + 1, k):
            B.eq(f"score series {i + 1},{j + 1} are uncorrelated", G[i, j], 0.0, scale_of=[P, P])
        if i > 0:
            B.eq(f"score series {i + 1} has the same norm as series 1", G[i, i], G[0, 0], scale_of=[P, P])
    V = model.data["filter_patterns"].transpose(model.feature_name, "mode").data
    W = model.data["components"].transpose(model.feature_name, "mode").data
    VW = V.T @ W
    for i in range(k):
        for j in range(k):
            if i != j:
                B.eq(f"filter pattern {i + 1} is orthogonal to OPP {j + 1}", VW[i, j], 0.0)
        if i > 0:
            B.eq(f"<filter pattern {i + 1}, OPP {i + 1}> equals <filter pattern 1, OPP 1>", VW[i, i], VW[0, 0])
    for i in range(k):
        tot, c0 = _acf_sum(P[:, i], n, tau_max)
        # magnitude and sign separately: open finding F15 (|lambda| reported for a negative lag sum) concerns the sign only
        B.eq(f"decorrelation time {i + 1}: (lambda * c(0))^2 == (trapezoidal lag sum of its own score series)^2", (lam[i] * c0) * (lam[i] * c0), tot * tot, scale_of=[P, P, P, P])
        B.ge(f"decorrelation time {i + 1}: lambda * c(0) has the sign of the trapezoidal lag sum", lam[i] * c0 * tot, 0.0, scale_of=[P, P, P, P])
        try:
            nz = bool(np.any(np.asarray(B.value(P[:, i])) != 0))
        except Exception:  # noqa - no witness on this path
            nz = True
        B.check(f"score series {i + 1} is not identically zero (at the witness)", nz, "all-zero score series")
    if k > 1:
        B.ge("decorrelation times descending", lam[:-1], lam[1:])


def configs(tier):
    out = []

    def add(key, **params):
        out.append({"key": key, "fn": "h_opa", "params": params, "options": {"full_rank": True, "hermitian_psd_inputs": True, "budget_s": 120 if tier == "quick" else 1200}})

    add("OPA|n5|tau1", n=5, tau_max=1)
    add("OPA|n6|tau2", n=6, tau_max=2)
    add("OPA|n5|tau1|names=s,f", n=5, tau_max=1, names=("s", "f"))
    add("OPA|n7|tau2 (n//4 < tau_max <= n/3)", n=7, tau_max=2)
    add("OPA|n5|tau1|witness scale 1e-7", n=5, tau_max=1, witness_scale=1e-7)
    add("OPA|n5|tau1|center=False", n=5, tau_max=1, flags={"center": False})  # the series are anomalies whatever the model's own centring flag
    if tier == "thorough":
        add("OPA|n7|p3|npca3|tau2", n=7, p=3, npca=3, tau_max=2)
    return out
