"""C13 - a model survives serialisation unchanged."""
from __future__ import annotations

import copy
import json
import os
import re
import subprocess
import sys
import time

import numpy as np
import xarray as xr

from .common import *  # noqa
from . import models as M

ROOT = os.path.dirname(os.path.dirname(os.path.abspath(__file__)))

EXPLANATION = (
    "(a) Engine B (CrossHair, symbolic str / Optional[bool] / lists): the REAL _sanitize_attrs_nc / _desanitize_attrs_nc run on a minimal tree carrying a symbolic "
    "attribute value; conditions: no exception for any string up to the length bound, plain strings come back unchanged, bool/None/lists round-trip, decoding is "
    "idempotent. (b) Engine A (symx): each model class is fitted on symbolic data whose DataArrays carry user attributes (empty string, '[m/s]', 'None', dict-like "
    "strings); type(model).deserialize(codec(model.serialize())) for codec in {identity, netCDF attribute codec, JSON dump/load of all attrs, insert_placeholders}; "
    "obligations: equal parameters; components, scores, transform(X_new), inverse_transform(S), predict(X_new) of the rebuilt model are term-identical to the original's."
)
FUNCTIONS = ["BaseModel.serialize / deserialize / _deserialize_attrs", "Transformer._serialize / _deserialize / _serialize_data / _deserialize_data_node", "Preprocessor.serialize / deserialize", "DataContainer.serialize / deserialize", "insert_placeholders", "_sanitize_attrs_nc", "_should_desanitize", "_desanitize_attrs_nc"]
BOUNDS = {
    "quick": {"strings": "len <= 5 (CrossHair, 40 s per condition)", "models": "EOF, ComplexEOF, EOFRotator, ExtendedEOF, CPCCA, MCA, CPCCARotator on 4x2..4x4 data; DataArray, Dataset, list, MultiIndex inputs"},
    "thorough": {"strings": "len <= 6 (120 s per condition)", "models": "same plus POP, HilbertEOF, RDA, CCA"},
}
OUTSIDE = ["byte-level zarr / netCDF writers (no engine installed in the sandbox)", "ast.literal_eval internals (C level: CrossHair realises the string there; documented exception types trusted)", "OPA / SparsePCA (iterative solvers, see C19 / DESIGN)"]
TRUSTED = ["xarray.DataTree construction and attribute storage", "ast.literal_eval raises only ValueError/SyntaxError/TypeError/MemoryError/RecursionError"]
ASSUMPTIONS = []

XH_FILE = os.path.join(ROOT, "xh", "c13_codec.py")


def xh_run(cfg):
    """one CrossHair condition; returns a result dict shaped like run_config's"""
    fn = cfg["params"]["function"]
    tmo = cfg["params"].get("timeout", 40)
    src = open(XH_FILE).read().splitlines()
    line = next(i for i, l in enumerate(src) if l.startswith(f"def {fn}(")) + 2
    t0 = time.time()
    env = dict(os.environ, PYTHONPATH=ROOT + os.pathsep + os.environ.get("PYTHONPATH", ""))
    try:
        p = subprocess.run([sys.executable, "-m", "crosshair", "check", "--report_all", "--per_condition_timeout", str(tmo), f"{XH_FILE}:{line}"], capture_output=True, text=True, timeout=tmo * 4 + 60, env=env, cwd=ROOT)
        out = (p.stdout + p.stderr).strip()
    except subprocess.TimeoutExpired:
        out = "timeout"
    res = {"cfg": cfg["key"], "paths": 1, "paths_witnessed": 0, "obligations": 1, "discharged": 0, "goals": 1, "goals_proved": 0, "open": [], "violations": [], "engine_errors": [], "samples": [], "functions": ["_sanitize_attrs_nc", "_desanitize_attrs_nc", "_should_desanitize"], "stubs": [], "notes": [f"crosshair check --report_all --per_condition_timeout {tmo}"], "solver_time_s": round(time.time() - t0, 2), "queries": 1, "wall_s": round(time.time() - t0, 2)}
    expect_refuted = fn == "reach_twin"
    last = out.splitlines()[-1] if out else ""
    res["samples"].append({"obligation": fn, "verdict": last[-200:], "text": f"PEP316 condition of {fn} in xh/c13_codec.py"})
    if "Confirmed over all paths" in out:
        if expect_refuted:
            res["engine_errors"].append("reachability twin was 'confirmed': the harness never reaches its postcondition (vacuous)")
        else:
            res["discharged"] = 1
            res["goals_proved"] = 1
    elif "error:" in out:
        m = re.search(r"when calling (\w+\(.*\))", out)
        call = m.group(1) if m else None
        if expect_refuted:
            res["discharged"] = 1
            res["goals_proved"] = 1
            res["notes"].append("reachability twin refuted as required")
        else:
            # replay the counterexample by an ordinary call of the harness function (real code underneath)
            rep = _xh_replay(fn, call)
            if rep["reproduced"]:
                res["violations"].append({"obligation": fn, "status": "counterexample", "detail": last[-300:], "float_detail": rep["detail"], "confirmed": True, "path": [call]})
            else:
                res["open"].append({"obligation": fn, "status": "open", "detail": f"CrossHair counterexample {call} did not reproduce: {rep['detail']}", "witnessed": False})
    else:
        res["open"].append({"obligation": fn, "status": "open", "detail": f"CrossHair: {last[-160:] or 'no verdict'} (inconclusive)", "witnessed": False})
    return res


def _xh_replay(fn, call):
    if not call:
        return {"reproduced": False, "detail": "no call text"}
    import importlib.util

    spec = importlib.util.spec_from_file_location("c13_codec", XH_FILE)
    mod = importlib.util.module_from_spec(spec)
    spec.loader.exec_module(mod)
    try:
        r = eval(call, {fn: getattr(mod, fn)})
    except Exception as e:
        return {"reproduced": True, "detail": f"{call} raised {type(e).__name__}: {e}"}
    ok = (r is True)
    return {"reproduced": not ok, "detail": f"{call} returned {r!r}"}


# ---------------------------------------------------------------------------------------
# engine A


def _json_roundtrip(dt):
    for node in dt.subtree:
        node.attrs = json.loads(json.dumps(dict(node.attrs)))
        for v in node.variables:
            node[v].attrs = json.loads(json.dumps(dict(node[v].attrs)))
    return dt


def _codec(dt, codec):
    from xeofs.utils.io import _desanitize_attrs_nc, _sanitize_attrs_nc, insert_placeholders

    if codec == "identity":
        return dt
    if codec == "netcdf-attrs":
        return _desanitize_attrs_nc(_sanitize_attrs_nc(dt))
    if codec == "json":
        return _json_roundtrip(dt)
    if codec == "placeholders":
        return insert_placeholders(dt)
    if codec == "placeholders+netcdf-attrs":
        return _desanitize_attrs_nc(_sanitize_attrs_nc(insert_placeholders(dt)))
    raise ValueError(codec)


ATTRS = {"units": "[m/s]", "long_name": "", "comment": "None", "flag": "True", "history": "{not a dict}", "valid": "[1, 2]"}


def _with_attrs(X):
    def one(da):
        da = da.copy()
        da.attrs = dict(ATTRS)
        for d in da.dims:
            if d in da.coords:
                da[d].attrs = {"units": "", "axis": "[T]"}
        return da

    if isinstance(X, list):
        return [one(x) for x in X]
    if isinstance(X, xr.Dataset):
        ds = xr.Dataset({v: one(X[v]) for v in X.data_vars})
        ds.attrs = dict(ATTRS)
        return ds
    return one(X)


def _params_equal(a, b):
    return json.dumps(a, sort_keys=True, default=str) == json.dumps(b, sort_keys=True, default=str)


def h_single(B, cls="EOF", layout="2d", codec="identity", rot=None, p=3, flags=None, extra=None, when="after-fit", aux=False, n=None, k=2):
    flags = dict(flags or {})
    extra = dict(extra or {})
    cplx = cls == "ComplexEOF"
    X, dim, fd = M.make_input(B, layout, n or (4 if cls != "ExtendedEOF" else 5), p, cplx, flags)
    X = _with_attrs(X)
    if aux:
        # non-index coordinates: a scalar one (left behind by .sel(level=500)), a 1-D one on a feature dim, one on the sample dim, a 2-D one
        nm = X.name
        X = X.assign_coords(level=500.0)
        fdim = [d for d in X.dims if d != "time"]
        X = X.assign_coords({"area_" + fdim[0]: (fdim[0], [1.5 + i for i in range(X.sizes[fdim[0]])]), "season": ("time", ["a", "b", "a", "b"][: X.sizes["time"]])})
        if len(fdim) == 2:
            X = X.assign_coords(cell=(tuple(fdim), np.arange(X.sizes[fdim[0]] * X.sizes[fdim[1]], dtype=float).reshape(X.sizes[fdim[0]], X.sizes[fdim[1]])))
        X.name = nm
    model = M.single(cls, n_modes=k, solver="full", **flags, **extra)
    model.fit(X, dim)
    if rot:
        model = M.rotate(model, **rot)
    from .C14 import _new_like

    Xn = _with_attrs(_new_like(B, X, "xn")) if layout not in ("multiindex", "stacked-sample", "stacked-sample-ym") else None
    if layout == "stacked-sample-ym":
        Xn = xr.DataArray(B.array((1, 2, p), "xn", cplx), dims=("year", "month", "x"), coords={"year": [2010], "month": [6, 5], "x": XS[:p]}, name="v_xn").stack(time=("year", "month"))
        Xn = _with_attrs(Xn)
    if layout == "stacked-sample":
        Xn = xr.DataArray(B.array((1, 2, p), "xn", cplx), dims=("t1", "t2", "x"), coords={"t1": ["z"], "t2": [7, 8], "x": XS[:p]}, name="v_xn").stack(time=("t1", "t2"))
        Xn = _with_attrs(Xn)
    if when == "after-transform" and Xn is not None and cls not in ("ExtendedEOF", "HilbertEOF"):
        model.transform(Xn)
    B.covers(f"{type(model).__name__}.serialize/deserialize")
    dt = B.completes("serialize runs", lambda: model.serialize())
    if dt is None:
        return
    dt2 = B.completes(f"codec {codec} runs", lambda: _codec(dt, codec))
    if dt2 is None:
        return
    m2 = B.completes("deserialize runs", lambda: type(model).deserialize(dt2))
    if m2 is None:
        return
    B.check("parameters equal", _params_equal(model.get_params(), m2.get_params()), f"{model.get_params()} vs {m2.get_params()}")
    B.eq("components equal", m2.components(), model.components())
    B.eq("scores equal", m2.scores(), model.scores())
    for d in model.scores().dims:
        i1, i2 = model.scores().indexes[d], m2.scores().indexes[d]
        B.check(f"scores: index of {d} identical (incl. MultiIndex level order)", list(getattr(i1, "names", [])) == list(getattr(i2, "names", [])) and i1.equals(i2), f"{getattr(i1, 'names', None)} vs {getattr(i2, 'names', None)}")
    if cls not in ("ExtendedEOF", "HilbertEOF"):
        if Xn is not None and not aux:
            B.eq("transform(X_new) equal", m2.transform(Xn), model.transform(Xn))
        if aux:
            t_old = B.completes("transform(training data) on the original model runs", lambda: model.transform(X))
            t_new = B.completes("transform(training data) on the rebuilt model runs", lambda: m2.transform(X))
            if t_old is not None and t_new is not None:
                B.eq("transform(training data) equal", t_new, t_old)
    if layout not in ("multiindex", "stacked-sample", "stacked-sample-ym"):
        S = xr.DataArray(B.array((2, k), "S", cplx), dims=("time", "mode"), coords={"time": [100, 101], "mode": list(range(1, k + 1))})
        B.eq("inverse_transform(S) equal", m2.inverse_transform(S), model.inverse_transform(S))
    B.eq("explained variance equal", m2.explained_variance(), model.explained_variance())
    if rot and rot.get("compute") is False:
        # a lazily fitted rotator was serialised before compute(): both objects must also agree after compute()
        B.completes("compute() on the original runs", lambda: model.compute() or True)
        B.completes("compute() on the rebuilt model runs", lambda: m2.compute() or True)
        B.eq("after compute(): components equal", m2.components(), model.components())
        B.eq("after compute(): scores equal", m2.scores(), model.scores())
        B.eq("after compute(): explained variance equal", m2.explained_variance(), model.explained_variance())
        if Xn is not None:
            B.eq("after compute(): transform(X_new) equal", m2.transform(Xn), model.transform(Xn))


def h_cross(B, cls="CPCCA", codec="identity", alpha=0.5, use_pca=False, rot=None):
    cplx = cls.startswith("Complex")
    X = _with_attrs(da2d(B, "x", 4, 2, cplx, feat="x"))
    Y = _with_attrs(da2d(B, "y", 4, 2, cplx, feat="y"))
    model = M.cross(cls, n_modes=2, alpha=alpha, use_pca=use_pca, n_pca_modes="all").fit(X, Y, "time")
    if rot:
        model = M.rotate_cross(model, **rot)
    B.covers(f"{type(model).__name__}.serialize/deserialize")
    dt = B.completes("serialize runs", lambda: model.serialize())
    if dt is None:
        return
    dt2 = B.completes(f"codec {codec} runs", lambda: _codec(dt, codec))
    if dt2 is None:
        return
    m2 = B.completes("deserialize runs", lambda: type(model).deserialize(dt2))
    if m2 is None:
        return
    B.check("parameters equal", _params_equal(model.get_params(), m2.get_params()), f"{model.get_params()} vs {m2.get_params()}")
    for i in range(2):
        B.eq(f"components{i + 1} equal", m2.components()[i], model.components()[i])
        B.eq(f"scores{i + 1} equal", m2.scores()[i], model.scores()[i])
    Xn = _with_attrs(da2d(B, "xn", 2, 2, cplx, feat="x", scoords=[100, 101]))
    Yn = _with_attrs(da2d(B, "yn", 2, 2, cplx, feat="y", scoords=[100, 101]))
    t1, t2 = model.transform(Xn, Yn), m2.transform(Xn, Yn)
    B.eq("transform(X_new) equal", t2[0], t1[0])
    B.eq("transform(Y_new) equal", t2[1], t1[1])
    S = xr.DataArray(B.array((2, 2), "S"), dims=("time", "mode"), coords={"time": [100, 101], "mode": [1, 2]})
    r1, r2 = model.inverse_transform(S, S), m2.inverse_transform(S, S)
    B.eq("inverse_transform(S)[0] equal", r2[0], r1[0])
    B.eq("inverse_transform(S)[1] equal", r2[1], r1[1])
    if not rot:
        pr = B.completes("predict(X_new) on the rebuilt model runs", lambda: m2.predict(Xn))
        if pr is not None:
            B.eq("predict(X_new) equal", pr, model.predict(Xn))


def configs(tier):
    out = []
    tmo = 40 if tier == "quick" else 120
    for fn in ("rt_str_no_exception", "rt_str_plain_is_identity", "rt_optional_bool", "rt_list_of_bools", "rt_list_of_ints", "rt_idempotent", "reach_twin"):
        out.append({"key": f"crosshair|{fn}", "fn": "xh_run", "engine": "xh", "params": {"function": fn, "timeout": tmo}})

    def add(fn, key, **params):
        cfg = {"key": key, "fn": fn, "params": params}
        if fn == "h_cross":
            cfg["options"] = {"full_rank": True}
        out.append(cfg)

    codecs = ["identity", "netcdf-attrs", "json", "placeholders+netcdf-attrs"]
    for codec in codecs:
        add("h_single", f"EOF|2d|{codec}", cls="EOF", codec=codec)
    for layout in ("3d", "dataset", "list", "multiindex", "stacked-sample", "stacked-sample-ym"):
        add("h_single", f"EOF|{layout}|netcdf-attrs", cls="EOF", layout=layout, p=4 if layout in ("3d", "dataset", "list") else 2, codec="netcdf-attrs")
        add("h_single", f"EOF|{layout}|json", cls="EOF", layout=layout, p=4 if layout in ("3d", "dataset", "list") else 2, codec="json")
    add("h_single", "EOF|2d|non-index coordinates|json", cls="EOF", codec="json", aux=True)
    add("h_single", "EOF|3d|non-index coordinates|netcdf-attrs", cls="EOF", layout="3d", p=4, codec="netcdf-attrs", aux=True)
    add("h_single", "EOF|list of 12 items|json", cls="EOF", layout="list12", p=2, codec="json")
    add("h_single", "EOF|2d|standardize|coslat-off|netcdf-attrs|after-transform", cls="EOF", codec="netcdf-attrs", flags={"standardize": True}, when="after-transform")
    add("h_single", "ComplexEOF|2d|netcdf-attrs", cls="ComplexEOF", codec="netcdf-attrs")
    add("h_single", "EOFRotator|2d|netcdf-attrs", cls="EOF", codec="netcdf-attrs", rot={"n_modes": 2, "power": 1})
    add("h_single", "EOFRotator|power2|json", cls="EOF", codec="json", rot={"n_modes": 2, "power": 2})
    add("h_single", "EOFRotator|compute=False, serialised before compute()|n5p3k3|json", cls="EOF", codec="json", n=5, p=3, k=3, rot={"n_modes": 3, "power": 1, "compute": False})
    add("h_single", "ExtendedEOF|netcdf-attrs", cls="ExtendedEOF", codec="netcdf-attrs", p=2, extra={"tau": 1, "embedding": 2})
    add("h_single", "HilbertEOF|json", cls="HilbertEOF", codec="json", p=2, extra={"padding": "none"})
    for codec in ("netcdf-attrs", "json"):
        add("h_cross", f"CPCCA|alpha=0.5|{codec}", cls="CPCCA", codec=codec)
    add("h_cross", "CPCCA|alpha=[0.0,1.0]|pca|netcdf-attrs", cls="CPCCA", alpha=[0.0, 1.0], use_pca=True, codec="netcdf-attrs")
    add("h_cross", "MCA|placeholders+netcdf-attrs", cls="MCA", codec="placeholders+netcdf-attrs")
    add("h_cross", "CPCCARotator|json", cls="CPCCA", codec="json", rot={"n_modes": 2, "power": 1})
    # every rotator class with non-default constructor arguments (the complex / Hilbert CPCCA rotators only take **kwargs)
    add("h_cross", "MCARotator|non-default rotator arguments|json", cls="MCA", codec="json", rot={"n_modes": 2, "power": 1, "max_iter": 500, "rtol": 1e-7})
    add("h_cross", "ComplexCPCCARotator|non-default rotator arguments|json", cls="ComplexCPCCA", alpha=1.0, codec="json", rot={"n_modes": 2, "power": 1, "max_iter": 500, "rtol": 1e-7})
    add("h_cross", "ComplexMCARotator|non-default rotator arguments|identity", cls="ComplexMCA", codec="identity", rot={"n_modes": 2, "power": 1, "max_iter": 500, "rtol": 1e-7})
    if tier == "thorough":
        add("h_cross", "CCA|json", cls="CCA", codec="json")
        add("h_cross", "RDA|netcdf-attrs", cls="RDA", codec="netcdf-attrs")
    return out
