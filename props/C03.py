"""C03 - full-mode inverse_transform restores the data; transform o inverse_transform = id; normalized switches."""
from __future__ import annotations

import numpy as np
import xarray as xr

from .common import *  # noqa
from . import models as M

EXPLANATION = (
    "Real fit / scores / inverse_transform / transform / components are executed on symbolic data (and symbolic weights, and an arbitrary "
    "symbolic score array S with its own sample labels). Obligations, for all values: inverse_transform(scores()) == X at every label when all "
    "modes are kept; transform(inverse_transform(S)) == S; the normalized switches differ from the default exactly by the per-mode norms."
)
FUNCTIONS = [
    "BaseModelSingleSet.inverse_transform/transform/scores/components", "EOF._inverse_transform_algorithm", "Preprocessor.inverse_transform_data",
    "Scaler.inverse_transform_data", "Stacker._unstack_*", "Sanitizer.inverse_transform_*", "Concatenator._split_dataarray_into_list",
    "BaseModelCrossSet.inverse_transform/transform", "CPCCA._inverse_transform_algorithm", "Whitener.inverse_transform_data", "PCA.inverse_transform_data",
]
BOUNDS = {
    "quick": {"n_samples": "3..5", "n_features": "2..4", "n_modes": "= rank (2..3)", "alpha": "{0, 0.5, 1}", "paths_per_config": 48},
    "thorough": {"n_samples": "3..6", "n_features": "2..4", "n_modes": "= rank", "alpha": "{0, 0.25, 0.5, 1}", "paths_per_config": 512},
}
OUTSIDE = ["IEEE rounding", "SparsePCA / POP (exempt by the property)", "HilbertEOF reconstruction beyond the real part (scipy.signal.hilbert is below the stub line)"]
TRUSTED = ["SVD contract", "inv contract (A B = B A = I) for the whitener's stored inverse"]
ASSUMPTIONS = ["std > 1.2e-7 branch and clipped branch are both explored as paths"]


def h_single(B, cls="EOF", n=4, p=2, flags=None, weights=False, layout="2d", k=None, witness=None):
    flags = dict(flags or {})
    cplx = cls == "ComplexEOF"
    X, dim, fdims = M.make_input(B, layout, n, p, cplx, flags)
    X = M.extreme_witness(X, witness)
    w = M.make_weights(B, X, fdims) if weights else None
    ptot = p if layout not in ("3d", "3d-coslat") else 2 * max(1, p // 2)
    k = k or min(n, ptot)
    model = M.single(cls, n_modes=k, solver="full", **flags)
    model.fit(X, dim, weights=w)
    B.covers(f"{cls}.fit", f"{cls}.inverse_transform", f"{cls}.transform")
    sc = model.scores()
    rec = B.completes("inverse_transform(scores()) runs", lambda: model.inverse_transform(sc))
    if rec is not None:
        B.eq("inverse_transform(scores())==X", rec, X)
    # arbitrary scores with new sample labels
    ns = 2
    S = B.array((ns, k), "S", cplx)
    sdim = dim if isinstance(dim, str) else None
    if sdim is not None:
        Sda = xr.DataArray(S, dims=(sdim, "mode"), coords={sdim: [100 + i for i in range(ns)], "mode": list(range(1, k + 1))})
        rec2 = B.completes("inverse_transform(S) runs", lambda: model.inverse_transform(Sda))
        if rec2 is not None:
            tr2 = B.completes("transform(inverse_transform(S)) runs", lambda: model.transform(rec2))
            if tr2 is not None:
                B.eq("transform(inverse_transform(S))==S", tr2, Sda)
            # normalized variants of inverse_transform
            norms = model.data["norms"]
            rec3 = model.inverse_transform(Sda, normalized=True)
            rec4 = model.inverse_transform(Sda * norms)
            B.eq("inverse_transform(S,normalized)==inverse_transform(S*norms)", rec3, rec4)
    norms = model.data["norms"]
    B.eq("scores(normalized)*norms==scores()", model.scores(normalized=True) * norms, sc)
    # one mode picked by label: 'mode' is then a scalar coordinate, not a dimension
    if layout in ("2d", "2d-internal-names") and k >= 2:
        scn = model.scores(normalized=True)
        one_n = B.completes("inverse_transform(one normalized mode picked by label, normalized=True) runs", lambda: model.inverse_transform(scn.sel(mode=2), normalized=True))
        one = model.inverse_transform(sc.sel(mode=2))
        if one_n is not None:
            B.eq("inverse_transform(scores(normalized).sel(mode=2), normalized=True) == inverse_transform(scores().sel(mode=2))", one_n, one)
    B.eq("components(normalized=False)==components()*norms", _mul(model.components(normalized=False), 1.0), _mul(model.components(), norms))
    B.eq("transform(X,normalized)*norms==transform(X)", model.transform(X, normalized=True) * norms, model.transform(X))


def _mul(obj_, f):
    if isinstance(obj_, list):
        return [o * f for o in obj_]
    return obj_ * f


def h_cross(B, cls="CPCCA", n=4, p=2, q=2, alpha=1.0, use_pca=False, cplx=False, flags=None, weights=False):
    flags = dict(flags or {})
    X = da2d(B, "x", n, p, cplx, feat="x")
    Y = da2d(B, "y", n, q, cplx, feat="y")
    k = min(p, q)
    model = M.cross(cls, n_modes=k, alpha=alpha, use_pca=use_pca, n_pca_modes="all", **flags)
    kw = {}
    if weights:
        kw = dict(weights_X=M.make_weights(B, X, ("x",), "wx"), weights_Y=M.make_weights(B, Y, ("y",), "wy"))
    model.fit(X, Y, "time", **kw)
    B.covers(f"{cls}.fit", f"{cls}.inverse_transform", f"{cls}.transform")
    sx, sy = model.scores()
    rec = B.completes("inverse_transform(scores) runs", lambda: model.inverse_transform(sx, sy))
    if rec is not None:
        if p <= k:
            B.eq("inverse_transform(scores1)==X", rec[0], X)
        if q <= k:
            B.eq("inverse_transform(scores2)==Y", rec[1], Y)
    ns = 2
    S1 = xr.DataArray(B.array((ns, k), "S1", cplx), dims=("time", "mode"), coords={"time": [100, 101], "mode": list(range(1, k + 1))})
    S2 = xr.DataArray(B.array((ns, k), "S2", cplx), dims=("time", "mode"), coords={"time": [100, 101], "mode": list(range(1, k + 1))})
    rec2 = B.completes("inverse_transform(S1,S2) runs", lambda: model.inverse_transform(S1, S2))
    if rec2 is not None:
        tr = B.completes("transform(inverse_transform(S)) runs", lambda: model.transform(rec2[0], rec2[1]))
        if tr is not None:
            if p <= k:
                B.eq("transform(inverse_transform(S1))==S1", tr[0], S1)
            if q <= k:
                B.eq("transform(inverse_transform(S2))==S2", tr[1], S2)
    n1, n2 = model.data["norm1"], model.data["norm2"]
    sxn, syn = model.scores(normalized=True)
    B.eq("scores1(normalized)*norm1==scores1", sxn * n1, sx)
    B.eq("scores2(normalized)*norm2==scores2", syn * n2, sy)
    trn = model.transform(X, Y, normalized=True)
    tr0 = model.transform(X, Y)
    B.eq("transform(X,normalized)*norm1==transform(X)", trn[0] * n1, tr0[0])
    B.eq("transform(Y,normalized)*norm2==transform(Y)", trn[1] * n2, tr0[1])


def configs(tier):
    out = []

    def add(fn, key, **params):
        cfg = {"key": key, "fn": fn, "params": params}
        if fn == "h_cross" and "rank-deficient" not in key:
            cfg["options"] = {"full_rank": True}
            if tier == "quick" and params.get("cplx") and (params.get("use_pca") or params.get("cls") == "ComplexCPCCA"):
                cfg["options"]["budget_s"] = 100  # two PCA + one cross SVD on complex symbols: the transform-after-inverse obligations may stay INCONCLUSIVE in the quick tier
        out.append(cfg)

    shapes = [(4, 2), (3, 3)] if tier == "quick" else [(4, 2), (3, 3), (5, 3), (3, 4)]
    for cls in ("EOF", "ComplexEOF"):
        for (n, p) in shapes:
            for fl in flagsets(tier):
                for w in (False, True):
                    if cls == "ComplexEOF" and tier == "quick" and (n, p) != (4, 2):
                        continue
                    if cls == "ComplexEOF" and tier == "quick" and fl and w:
                        continue
                    add("h_single", f"{cls}|n{n}p{p}|{keyof(fl)}|w{int(w)}", cls=cls, n=n, p=p, flags=fl, weights=w)
    for wkey, wit in (("scale 1e-8", {"scale": 1e-8}), ("scale 1e8", {"scale": 1e8}), ("offset 1e7", {"offset": 1e7})):
        c_ = {"key": f"EOF|n4p2|standardize|witness {wkey}", "fn": "h_single", "params": {"cls": "EOF", "n": 4, "p": 2, "flags": {"standardize": True} if "offset" in wit or wit.get("scale") == 1e8 else {}, "witness": wit}, "options": {"float_rtol": 1e-5}}
        out.append(c_)
    add("h_single", "EOF|layout=2d-internal-names", cls="EOF", n=4, p=2, layout="2d-internal-names")
    for layout in ("3d-coslat", "dataset", "list", "2d-T", "3d-T"):
        fl = {"use_coslat": True} if layout == "3d-coslat" else {}
        add("h_single", f"EOF|layout={layout}", cls="EOF", n=4, p=4 if layout != "2d-T" else 2, layout=layout, flags=fl, weights=(layout in ("dataset", "list")))
        add("h_single", f"EOF|layout={layout}|standardize", cls="EOF", n=4, p=4 if layout != "2d-T" else 2, layout=layout, flags=dict(fl, standardize=True))
    alphas = [1.0, 0.5, 0.0] if tier == "quick" else [1.0, 0.5, 0.25, 0.0]
    for alpha in alphas:
        for use_pca in (False, True):
            if tier == "quick" and use_pca and alpha != 0.5:
                continue
            add("h_cross", f"CPCCA|alpha={alpha}|pca={int(use_pca)}", cls="CPCCA", n=4, p=2, q=2, alpha=alpha, use_pca=use_pca)
    add("h_cross", "CPCCA|alpha=[0.0,1.0]|p3q2", cls="CPCCA", n=5, p=3, q=2, alpha=[0.0, 1.0], use_pca=False)
    for cls in ("MCA", "CCA", "RDA"):
        add("h_cross", f"{cls}|pca=0", cls=cls, n=4, p=2, q=2, use_pca=False)
        if tier == "thorough" or cls == "MCA":
            add("h_cross", f"{cls}|pca=1", cls=cls, n=4, p=2, q=2, use_pca=True)
    add("h_cross", "ComplexMCA", cls="ComplexMCA", n=4, p=2, q=2, use_pca=False, cplx=True)
    add("h_cross", "ComplexMCA|pca=1", cls="ComplexMCA", n=4, p=2, q=2, use_pca=True, cplx=True)
    if tier == "quick":
        add("h_cross", "ComplexCPCCA|alpha=[1.0,0.0]", cls="ComplexCPCCA", n=4, p=2, q=2, alpha=[1.0, 0.0], use_pca=False, cplx=True)  # complex whitening of one field
    if tier == "thorough":
        add("h_cross", "CPCCA|alpha=0.5|weights|standardize", cls="CPCCA", n=4, p=2, q=2, alpha=0.5, use_pca=False, weights=True, flags={"standardize": True})
        add("h_cross", "ComplexCPCCA|alpha=0.5", cls="ComplexCPCCA", n=4, p=2, q=2, alpha=0.5, use_pca=False, cplx=True)
        add("h_cross", "ComplexCPCCA|alpha=0.5|pca=1", cls="ComplexCPCCA", n=4, p=2, q=2, alpha=0.5, use_pca=True, cplx=True)
    else:
        add("h_cross", "CPCCA|alpha=0.5|weights", cls="CPCCA", n=4, p=2, q=2, alpha=0.5, use_pca=False, weights=True)
    return out
