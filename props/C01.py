"""C01 - EOF-type modes are the exact eigen-decomposition of the preprocessed data."""
from __future__ import annotations

import numpy as np
import xarray as xr

from .common import *  # noqa
from . import models as M

EXPLANATION = (
    "The real fit of EOF / ComplexEOF / HilbertEOF / ExtendedEOF runs on symbolic data under the SVD contract stub. Obligations (all values): "
    "(a) the decomposed matrix (model.data['input_data']) equals an independently written oracle (X-mean)/std*sqrt(cos lat)*w, Hilbert: its real part and "
    "column means 0, EEOF: the column-centred delay embedding; (b) components orthonormal; (c) scores orthogonal with squared norms = singular values^2; "
    "(d) explained_variance_i == s_i^2/(n-1), non-negative and non-increasing, C v_i == lambda_i v_i for the oracle covariance C = M^H M/(n-1), "
    "total_variance == trace(C), ratio == lambda_i/trace(C); (e) M V_k == scores and (M - S V^H) V == 0, S^H (M - S V^H) == 0 (residual orthogonal to the retained modes)."
)
FUNCTIONS = ["EOF._fit_algorithm", "Decomposer.fit", "total_variance", "Scaler.fit/transform", "compute_sqrt_cos_lat_weights", "Stacker._stack", "HilbertEOF._augment_data", "_hilbert_transform_with_padding (padding=None)", "ExtendedEOF._fit_algorithm", "explained_variance_ratio", "singular_values"]
BOUNDS = {
    "quick": {"n_samples": "3..5", "n_features": "1..4", "n_modes": "1..rank (<=3)", "solver": "full, auto, randomized (idealised)"},
    "thorough": {"n_samples": "3..6", "n_features": "1..5", "n_modes": "1..rank (<=4)"},
}
OUTSIDE = ["Eckart-Young optimality (trusted lemma; the obligations establish that the retained triplets are the leading singular triplets)", "scale range 1e-8..1e8 / rounding", "randomised solver accuracy", "Hilbert transform with padding='exp' (np.polynomial.polyfit is not encoded)", "repeated / zero singular values are covered only as far as the contract s1>=s2>=...>=0 allows"]
TRUSTED = ["SVD contract", "C V = Lambda V follows from M V = S and M^H S = V diag(s^2) by substitution (stated as two obligations)", "scipy.signal.hilbert contract: real part of the analytic signal equals the input"]
ASSUMPTIONS = []


def _eye(k):
    return np.eye(k)


def _core(B, model, Mor, n, cplx=False, centred=True):
    """obligations (b)-(e) against the oracle matrix Mor (n x p).
    The eigen-relation C v_i = lambda_i v_i with C = M^H M/(n-1) is stated as the two one-sided relations
    M V = S and M^H S = V diag(s^2) (substituting the first into C V gives M^H S/(n-1) = V diag(s^2/(n-1)))."""
    d = model.data
    V = d["components"].transpose("feature", "mode").data
    S = d["scores"].transpose("sample", "mode").data
    s = d["norms"].data
    ev = d["explained_variance"].data
    k = s.shape[0]
    B.eq("(a) decomposed matrix == oracle M(X)", d["input_data"].transpose("sample", "feature").data, Mor)
    B.eq("(b) V^H V == I", ctranspose(V) @ V, _eye(k))
    B.eq("(c) S^H S == diag(s^2)", ctranspose(S) @ S, np.diag(np.ones(k)) * (s * s))
    B.eq("(d) explained_variance == s^2/(n-1)", ev, s * s / (n - 1))
    B.eq("(e) M V == scores", Mor @ V, S)
    B.eq("(d) M^H S == V diag(s^2)  [=> C v_i = lambda_i v_i]", ctranspose(Mor) @ S, V * (s * s))
    if centred:
        tr = np.sum(np.real(Mor * np.conjugate(Mor))) / (n - 1)
        B.eq("(d) total_variance == trace(C)", d["total_variance"].data, tr)
        B.eq("(d) ratio * total_variance == lambda", model.explained_variance_ratio().data * d["total_variance"].data, ev)
    B.ge("(d) explained variance non-negative", ev, np.zeros(k), products=True)
    if k > 1:
        B.ge("(d) explained variance non-increasing", ev[:-1], ev[1:], products=True)
    R = Mor - S @ ctranspose(V)
    B.eq("(e) S^H (M - S V^H) == 0", ctranspose(S) @ R, np.zeros((k, Mor.shape[1])), scale_of=[S, Mor])


def h_eof(B, cls="EOF", n=4, p=2, k=2, flags=None, weights=False, layout="2d", solver="full", witness_scale=None):
    flags = dict(flags or {})
    cplx = cls == "ComplexEOF"
    X, dim, fdims = M.make_input(B, layout, n, p, cplx, flags)
    if witness_scale:
        # same symbolic generality; the WITNESS sits at the edge of the property's range of scales (1e-8 .. 1e8)
        nm = X.name
        X = X * float(witness_scale)
        X.name = nm
    w = M.make_weights(B, X, fdims) if weights else None
    Mor, labels = oracle_matrix(X, "time", center=flags.get("center", True), standardize=flags.get("standardize", False), use_coslat=flags.get("use_coslat", False), weights=w, B=B)
    model = M.single(cls, n_modes=k, solver=solver, **flags)
    model.fit(X, dim, weights=w)
    B.covers(f"{cls}.fit")
    _core(B, model, Mor, n, cplx, centred=flags.get("center", True))
    B.eq("singular_values() == norms", model.singular_values().data, model.data["norms"].data)


def _hilbert_matrix(n):
    """discrete Hilbert transform of length n as a matrix (DFT definition of the analytic signal; independent of
    scipy.signal and of xeofs): Im(analytic signal of x) == K x"""
    h = np.zeros(n)
    h[0] = 1.0
    if n % 2 == 0:
        h[n // 2] = 1.0
        h[1 : n // 2] = 2.0
    else:
        h[1 : (n + 1) // 2] = 2.0
    K = np.imag(np.fft.ifft(np.fft.fft(np.eye(n), axis=0) * h[:, None], axis=0))
    K[np.abs(K) < 1e-15] = 0.0
    return K


def h_hilbert(B, n=4, p=2, k=2, flags=None):
    flags = dict(flags or {})
    X, dim, fdims = M.make_input(B, "2d", n, p, False, flags)
    Mor, labels = oracle_matrix(X, "time", center=flags.get("center", True), standardize=flags.get("standardize", False), B=B)
    model = M.single("HilbertEOF", n_modes=k, solver="full", padding="none", **flags)
    model.fit(X, dim)
    B.covers("HilbertEOF.fit", "_hilbert_transform_with_padding")
    A = model.data["input_data"].transpose("sample", "feature").data
    B.eq("(a) Re(decomposed matrix) == centred oracle M(X)", np.real(A), Mor - Mor.mean(axis=0))
    B.eq("(a) decomposed matrix is column-centred", A.mean(axis=0), np.zeros(p))
    # imaginary part: the Hilbert transform of the centred real part along the sample axis, re-centred
    Mc = Mor - Mor.mean(axis=0)
    Him = _hilbert_matrix(n) @ Mc
    B.eq("(a) Im(decomposed matrix) == re-centred discrete Hilbert transform of the centred oracle", np.imag(A), Him - Him.mean(axis=0))
    _core(B, model, A, n, True, centred=True)


def h_eeof(B, n=5, p=2, k=2, tau=1, embedding=2, flags=None):
    flags = dict(flags or {})
    X, dim, fdims = M.make_input(B, "2d", n, p, False, flags)
    Mor, labels = oracle_matrix(X, "time", center=flags.get("center", True), standardize=flags.get("standardize", False), B=B)
    model = M.single("ExtendedEOF", n_modes=k, tau=tau, embedding=embedding, solver="full", **flags)
    model.fit(X, dim)
    B.covers("ExtendedEOF.fit")
    cut = (embedding - 1) * tau
    rows = n - cut
    blocks = [Mor[e * tau : e * tau + rows, :] for e in range(embedding)]
    E = np.concatenate(blocks, axis=1)  # embedding-major column order
    E = E - E.mean(axis=0)
    inner = model.model
    A = inner.data["input_data"].transpose("sample", "feature").data
    B.eq("(a) decomposed matrix == centred delay embedding of M(X)", A, E)
    d = inner.data
    V = d["components"]
    # inner container holds user-facing (unstacked) components after EEOF overwrote them: use the decomposer-level relation through scores
    S = d["scores"].transpose("sample", "mode").data
    s = d["norms"].data
    ev = d["explained_variance"].data
    kk = s.shape[0]
    B.eq("(c) S^H S == diag(s^2)", ctranspose(S) @ S, np.diag(np.ones(kk)) * (s * s))
    B.eq("(d) explained_variance == s^2/(rows-1)", ev, s * s / (rows - 1))
    comps = model.components()  # (mode, embedding, x)
    Vm = comps.transpose("embedding", "x", "mode").data.reshape((embedding * p, kk))
    B.eq("(b) V^H V == I", ctranspose(Vm) @ Vm, _eye(kk))
    B.eq("(d) E^H S == V diag(s^2)  [=> C v_i = lambda_i v_i]", ctranspose(E) @ S, Vm * (s * s))
    B.eq("(d) total_variance == trace(C)", d["total_variance"].data, np.sum(E * E) / (rows - 1))
    B.eq("(e) E V == scores", E @ Vm, S)
    if kk > 1:
        B.ge("(d) explained variance non-increasing", ev[:-1], ev[1:], products=True)


def configs(tier):
    out = []

    def add(fn, key, **params):
        cfg = {"key": key, "fn": fn, "params": params, "options": {"sign": "stub"}}
        if tier == "thorough":
            # the larger complex shapes can sit in one solver call for a long time: decided within 5 minutes or reported INCONCLUSIVE
            cfg["options"]["budget_s"] = 300
            cfg["hard_timeout_s"] = 700
        out.append(cfg)

    shapes = [(4, 2, 2), (3, 3, 2), (4, 1, 1), (4, 3, 1)] if tier == "quick" else [(4, 2, 2), (3, 3, 2), (4, 1, 1), (4, 3, 1), (5, 3, 3), (3, 4, 3), (6, 2, 2)]
    for cls in ("EOF", "ComplexEOF"):
        for (n, p, k) in shapes:
            for fl in flagsets(tier):
                for w in (False, True):
                    if tier == "quick" and cls == "ComplexEOF" and ((n, p, k) != (4, 2, 2) or (fl and w)):
                        continue
                    if tier == "quick" and (n, p, k) in ((4, 1, 1), (4, 3, 1)) and (fl or w):
                        continue
                    add("h_eof", f"{cls}|n{n}p{p}k{k}|{keyof(fl)}|w{int(w)}", cls=cls, n=n, p=p, k=k, flags=fl, weights=w)
    for sc in (1e-8, 1e8):
        add("h_eof", f"EOF|n4p3k2|witness scale {sc:g}", cls="EOF", n=4, p=3, k=2, witness_scale=sc)
    add("h_eof", "EOF|n4p3k2|standardize|witness scale 1e8", cls="EOF", n=4, p=3, k=2, flags={"standardize": True}, witness_scale=1e8)
    if tier == "quick":
        # wide and rank-deficient: n < p, all n modes requested, centring makes the last singular value exactly zero
        add("h_eof", "EOF|n3p4k3|default|w0", cls="EOF", n=3, p=4, k=3, flags={}, weights=False)
        add("h_eof", "ComplexEOF|n3p4k3|default|w0", cls="ComplexEOF", n=3, p=4, k=3, flags={}, weights=False)
    add("h_eof", "EOF|3d-coslat", cls="EOF", n=4, p=4, k=2, layout="3d-coslat", flags={"use_coslat": True})
    add("h_eof", "EOF|3d-coslat|standardize|w", cls="EOF", n=4, p=4, k=2, layout="3d-coslat", flags={"use_coslat": True, "standardize": True}, weights=True)
    for solver in ("auto", "randomized"):
        add("h_eof", f"EOF|solver={solver}", cls="EOF", n=4, p=3, k=2, solver=solver)
        add("h_eof", f"ComplexEOF|solver={solver}", cls="ComplexEOF", n=4, p=3, k=2, solver=solver)
    add("h_hilbert", "HilbertEOF|n4p2k2", n=4, p=2, k=2)
    add("h_hilbert", "HilbertEOF|standardize", n=4, p=2, k=2, flags={"standardize": True})
    add("h_hilbert", "HilbertEOF|odd length n3p2k2", n=3, p=2, k=2)
    add("h_eeof", "ExtendedEOF|n5p2|tau1|emb2", n=5, p=2, k=2, tau=1, embedding=2)
    add("h_eeof", "ExtendedEOF|n6p2|tau2|emb2", n=6, p=2, k=2, tau=2, embedding=2)
    if tier == "thorough":
        add("h_eeof", "ExtendedEOF|n6p2|tau1|emb3", n=6, p=2, k=2, tau=1, embedding=3)
        add("h_hilbert", "HilbertEOF|odd length n5p2k2", n=5, p=2, k=2)
        add("h_eeof", "ExtendedEOF|standardize", n=5, p=2, k=2, tau=1, embedding=2, flags={"standardize": True})
    return out
