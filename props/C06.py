"""C06 - fully missing features/samples are ignored exactly; isolated NaNs are refused."""
from __future__ import annotations

import itertools

import numpy as np
import xarray as xr

from .common import *  # noqa
from . import models as M

EXPLANATION = (
    "NaN masks are concrete and enumerated, all remaining values symbolic. For every mask of fully missing feature columns / sample rows the real fit on the "
    "masked data and the real fit on the data with those rows/columns deleted are both executed; obligations: equal singular values, components and scores on "
    "the remaining labels (term identity for all values - both fits hand entrywise-identical matrices to the SVD stub), NaN exactly at the deleted labels of "
    "components / scores / reconstruction. Every isolated-NaN mask must make fit and transform raise; transform data whose missing features differ from "
    "the training data must raise. Cross-set: all-NaN samples in X and/or Y must give the model of the row-deleted pair or raise."
)
FUNCTIONS = ["Sanitizer.fit/transform/inverse_transform_*", "Preprocessor", "Stacker", "Scaler (NaN-skipping mean/std)", "EOF.fit/transform/components/scores/inverse_transform", "BaseModelCrossSet.fit", "EOFRotator.fit"]
BOUNDS = {
    "quick": {"shape": "n<=5, p<=4 (2x2 grid)", "masks": "covering set: single/multiple columns, rows, both; every single-cell isolated mask of a 4x3 matrix"},
    "thorough": {"shape": "n<=5, p<=4", "masks": "ALL subsets of fully missing columns and rows leaving >= 2 features and >= 3 samples; all single-cell and a set of two-cell isolated masks"},
}
OUTSIDE = ["check_nans=False (documented: user must pre-clean)", "dask inputs"]
TRUSTED = ["SVD contract; functional consistency of the SVD (equal inputs give equal factors)"]
ASSUMPTIONS = []


def _nanmask(d):
    a = d.data
    return np.asarray(np.isnan(a))


def h_mask(B, n=4, p=3, cols=(), rows=(), k=2, flags=None, layout="2d", rot=None):
    flags = dict(flags or {})
    if layout == "2d":
        X = da2d(B, "x", n, p)
        fdim = "x"
    else:
        X = da3d(B, "x", n, 2, p // 2)
    cols, rows = list(cols), list(rows)
    if layout == "2d":
        mask = np.zeros((n, p), dtype=bool)
        mask[:, cols] = True
        mask[rows, :] = True
        Xm = X.where(~xr.DataArray(mask, dims=X.dims, coords=X.coords))
        keepc = [j for j in range(p) if j not in cols]
        keepr = [i for i in range(n) if i not in rows]
        Xd = X.isel(time=keepr, x=keepc)
    else:
        # cols index flattened (lat, lon) cells
        p2 = p // 2
        mask = np.zeros((n, 2, p2), dtype=bool)
        for c in cols:
            mask[:, c // p2, c % p2] = True
        mask[rows, :, :] = True
        Xm = X.where(~xr.DataArray(mask, dims=X.dims, coords=X.coords))
        keepr = [i for i in range(n) if i not in rows]
        Xd = None
    mA = M.single("EOF", n_modes=k, solver="full", **flags)
    r = B.completes("fit(masked) runs", lambda: mA.fit(Xm, "time"))
    if r is None:
        return
    if rot:
        mA = M.rotate(mA, **rot)
    B.covers("Sanitizer.transform", "Sanitizer.inverse_transform_components", "Sanitizer.inverse_transform_scores", "Sanitizer.inverse_transform_data")
    cA, sA = mA.components(), mA.scores()
    recA = mA.inverse_transform(sA)
    fd = [d for d in X.dims if d != "time"]
    exp_c = np.broadcast_to(mask.all(axis=0), cA.transpose("mode", *fd).shape)
    B.check("components: NaN exactly at the fully missing features", np.array_equal(_nanmask(cA.transpose("mode", *fd)), exp_c), "NaN pattern of components differs from the missing-feature mask")
    exp_s = np.broadcast_to(mask.reshape(n, -1).all(axis=1)[None], sA.transpose("mode", "time").shape)
    B.check("scores: NaN exactly at the fully missing samples", np.array_equal(_nanmask(sA.transpose("mode", "time")), exp_s), "NaN pattern of scores differs from the missing-sample mask")
    B.check("reconstruction: NaN exactly at the deleted labels", np.array_equal(_nanmask(recA.transpose(*X.dims)), mask), "NaN pattern of the reconstruction differs from the mask")
    if Xd is not None:
        mB = M.single("EOF", n_modes=k, solver="full", **flags).fit(Xd, "time")
        if rot:
            mB = M.rotate(mB, **rot)
        B.eq("singular values equal those of the reduced fit", mA.data["norms"], mB.data["norms"])
        B.eq("explained variance equals that of the reduced fit", mA.explained_variance(), mB.explained_variance())
        B.eq("components on remaining labels == reduced fit", cA.isel(x=keepc), mB.components())
        B.eq("scores on remaining labels == reduced fit", sA.isel(time=keepr), mB.scores())
        B.eq("reconstruction on remaining labels == reduced fit", recA.isel(time=keepr, x=keepc), mB.inverse_transform(mB.scores()))
        # transform of the masked training data reproduces the scores of the remaining samples
        tA = B.completes("transform(masked training data) runs", lambda: mA.transform(Xm))
        if tA is not None:
            tA = tA.sel(time=X.time.values[keepr])
            B.eq("transform(masked X) on remaining samples == scores", tA, sA.isel(time=keepr))
        # other data (other sample labels, same missing features) passes through; the fitted scores keep labels, NaNs and values
        Xn = da2d(B, "xn", 2, p, scoords=[100, 101])
        mn = np.zeros((2, p), dtype=bool)
        mn[:, cols] = True
        tn = B.completes("transform(other samples, same missing features) runs", lambda: mA.transform(Xn.where(~xr.DataArray(mn, dims=Xn.dims, coords=Xn.coords))))
        if tn is not None:
            sA2 = mA.scores()
            same_lab = list(sA2["time"].values) == list(sA["time"].values)
            B.check("scores() after transform(other samples): still labelled with the fitted samples", same_lab, f"{list(sA2['time'].values)}")
            if same_lab:
                B.check("scores() after transform(other samples): NaN exactly at the fully missing samples", np.array_equal(_nanmask(sA2.transpose("mode", "time")), exp_s), "NaN pattern changed")
                B.eq("scores() after transform(other samples): unchanged", sA2, sA)


def h_mask_labels(B, n=4, p=3, cols=(1,), rows=(), k=2, fcoords=(0.0, 60.0, -120.0), scoords=(5, 3, 9, 1)):
    """coordinates in no particular order (a relabelled longitude axis, unsorted station ids): the re-inserted NaNs and the
    remaining values must sit at their own LABELS"""
    X = da2d(B, "x", n, p, scoords=list(scoords)[:n], fcoords=list(fcoords)[:p])
    cols, rows = list(cols), list(rows)
    mask = np.zeros((n, p), dtype=bool)
    mask[:, cols] = True
    mask[rows, :] = True
    Xm = X.where(~xr.DataArray(mask, dims=X.dims, coords=X.coords))
    flab = [X["x"].values[j] for j in range(p)]
    slab = [X["time"].values[i] for i in range(n)]
    keepf = [flab[j] for j in range(p) if j not in cols]
    keeps = [slab[i] for i in range(n) if i not in rows]
    Xd = X.sel(time=keeps, x=keepf)
    mA = M.single("EOF", n_modes=k, solver="full")
    r = B.completes("fit(masked) runs", lambda: mA.fit(Xm, "time"))
    if r is None:
        return
    B.covers("Sanitizer.inverse_transform_components", "Sanitizer.inverse_transform_scores", "Sanitizer.inverse_transform_data")
    cA, sA = mA.components(), mA.scores()
    recA = mA.inverse_transform(sA)
    nan_f = {float(v) for v in cA["x"].values if bool(_nanmask(cA.sel(x=v)).all())}
    B.check("components: NaN exactly at the LABELS of the fully missing features", nan_f == {float(flab[j]) for j in cols}, f"NaN at {sorted(nan_f)}, missing features {[flab[j] for j in cols]}")
    nan_s = {int(v) for v in sA["time"].values if bool(_nanmask(sA.sel(time=v)).all())}
    B.check("scores: NaN exactly at the LABELS of the fully missing samples", nan_s == {int(slab[i]) for i in rows}, f"NaN at {sorted(nan_s)}, missing samples {[slab[i] for i in rows]}")
    mB = M.single("EOF", n_modes=k, solver="full").fit(Xd, "time")
    B.eq("singular values equal those of the reduced fit", mA.data["norms"], mB.data["norms"])
    B.eq("components at the remaining labels == reduced fit", cA.sel(x=keepf), mB.components().sel(x=keepf))
    B.eq("scores at the remaining labels == reduced fit", sA.sel(time=keeps), mB.scores().sel(time=keeps))
    B.eq("reconstruction at the remaining labels == input there (all modes kept)" if k == min(len(keeps) - 1, len(keepf)) else "reconstruction at the remaining labels == reduced fit", recA.sel(time=keeps, x=keepf), mB.inverse_transform(mB.scores()).sel(time=keeps, x=keepf))


def h_list_rows(B, n=5, rows_a=(1,), rows_b=(3,)):
    """list input whose items miss different samples: refused, or exactly the analysis of the samples complete in every item"""
    A = da2d(B, "xa", n, 2)
    Bv = da2d(B, "xb", n, 2, feat="y")

    def drop(D, rows):
        m = np.zeros(D.shape, dtype=bool)
        m[list(rows), :] = True
        return D.where(~xr.DataArray(m, dims=D.dims, coords=D.coords))

    Am, Bm = drop(A, rows_a), drop(Bv, rows_b)
    keep = [i for i in range(n) if i not in set(rows_a) | set(rows_b)]
    B.covers("Concatenator.transform (sample alignment of list items)")
    model = M.single("EOF", n_modes=2, solver="full")
    try:
        model.fit([Am, Bm], "time")
        fitted = True
    except ValueError:
        fitted = False
    if set(rows_a) == set(rows_b):
        B.check("items missing the same samples are accepted", fitted, "fit refused the data")
    if not fitted:
        B.check("list items missing different samples: refused", True, "")
        return
    ref = M.single("EOF", n_modes=2, solver="full").fit([A.isel(time=keep), Bv.isel(time=keep)], "time")
    B.eq("accepted list with missing samples: singular values == fit on the samples complete in every item", model.data["norms"], ref.data["norms"])
    sc = model.scores().isel(time=keep)
    B.eq("accepted list with missing samples: scores of the complete samples == those of the reduced fit", sc, ref.scores())


def h_isolated(B, n=4, p=3, cells=((1, 1),), when="fit", base_cols=(), flags=None):
    flags = dict(flags or {})
    X = da2d(B, "x", n, p)
    mask = np.zeros((n, p), dtype=bool)
    for (i, j) in cells:
        mask[i, j] = True
    base = np.zeros((n, p), dtype=bool)
    base[:, list(base_cols)] = True
    Xbad = X.where(~xr.DataArray(mask | base, dims=X.dims, coords=X.coords))
    Xfit = X.where(~xr.DataArray(base, dims=X.dims, coords=X.coords))
    B.covers("Sanitizer.transform (isolated NaN check)")
    if when == "fit":
        B.raises("fit on data with isolated NaN raises", lambda: M.single("EOF", n_modes=2, solver="full", **flags).fit(Xbad, "time"))
    else:
        m = M.single("EOF", n_modes=2, solver="full", **flags).fit(Xfit, "time")
        B.raises("transform of data with isolated NaN raises", lambda: m.transform(Xbad))


def h_transform_mismatch(B, n=4, p=3, fit_cols=(0,), new_cols=(1,), flags=None):
    flags = dict(flags or {})
    X = da2d(B, "x", n, p)
    Xn = da2d(B, "xn", 2, p, scoords=[100, 101])

    def masked(D, cols):
        m = np.zeros(D.shape, dtype=bool)
        m[:, list(cols)] = True
        return D.where(~xr.DataArray(m, dims=D.dims, coords=D.coords))

    m = M.single("EOF", n_modes=2, solver="full", **flags).fit(masked(X, fit_cols), "time")
    B.covers("Sanitizer.transform (mask comparison with fit)")
    if tuple(fit_cols) != tuple(new_cols):
        refused = B.raises("transform with different missing features raises", lambda: m.transform(masked(Xn, new_cols)))
        # a refusal must not change what the model accepts afterwards
        if refused:
            B.raises("the same call again is refused again", lambda: m.transform(masked(Xn, new_cols)))
        tok = B.completes("data with the training mask is still accepted after a refused call", lambda: m.transform(masked(Xn, fit_cols)))
        if tok is not None:
            B.check("no NaN in the scores (after a refused call)", not _nanmask(tok).any(), "NaN in transform result")
    else:
        t = B.completes("transform with the same missing features runs", lambda: m.transform(masked(Xn, new_cols)))
        if t is not None:
            B.check("no NaN in the scores", not _nanmask(t).any(), "NaN in transform result")
    # a fully missing NEW sample is allowed: omitted or NaN, other samples unaffected
    Xn2 = masked(Xn, fit_cols).copy()
    mm = np.zeros(Xn2.shape, dtype=bool)
    mm[0, :] = True
    Xn2 = Xn2.where(~xr.DataArray(mm, dims=Xn2.dims, coords=Xn2.coords))
    t2 = B.completes("transform with one fully missing new sample runs", lambda: m.transform(Xn2))
    t1 = m.transform(masked(Xn, fit_cols).isel(time=[1]))
    if t2 is not None:
        B.eq("remaining new sample unaffected", t2.sel(time=[101]), t1)


def h_cross(B, n=5, p=2, q=2, rows_x=(), rows_y=(), cls="MCA", alpha=1.0):
    X = da2d(B, "x", n, p, feat="x")
    Y = da2d(B, "y", n, q, feat="y")

    def masked(D, rows):
        m = np.zeros(D.shape, dtype=bool)
        m[list(rows), :] = True
        return D.where(~xr.DataArray(m, dims=D.dims, coords=D.coords))

    Xm, Ym = masked(X, rows_x), masked(Y, rows_y)
    keep = [i for i in range(n) if i not in rows_x and i not in rows_y]
    B.covers("BaseModelCrossSet.fit (NaN samples)")
    mA = M.cross(cls, n_modes=2, alpha=alpha, use_pca=False)
    try:
        mA.fit(Xm, Ym, "time")
    except Exception as e:  # refusing is allowed by the property
        from symx.ctx import EngineError

        if isinstance(e, EngineError):
            raise
        B.check("cross-set fit with missing samples: refused", True)
        return
    mB = M.cross(cls, n_modes=2, alpha=alpha, use_pca=False).fit(X.isel(time=keep), Y.isel(time=keep), "time")
    B.eq("singular values == those of the row-deleted pair", mA.data["singular_values"], mB.data["singular_values"])
    sA, sB = mA.scores(), mB.scores()
    for i in range(2):
        a = sA[i]
        if set(X.time.values[keep]) <= set(a.time.values):
            a = a.sel(time=X.time.values[keep])
        B.eq(f"scores{i + 1} on remaining samples == row-deleted pair", a, sB[i])


def configs(tier):
    out = []

    def add(fn, key, **params):
        cfg = {"key": key, "fn": fn, "params": params}
        if fn == "h_cross":
            cfg["options"] = {"full_rank": True}
        out.append(cfg)

    n, p = 5, 4
    colsets = [(), (0,), (3,), (1,), (0, 3), (1, 2)]
    rowsets = [(), (0,), (4,), (2,), (1, 3)]
    if tier == "thorough":
        colsets = [c for r in range(0, p - 1) for c in itertools.combinations(range(p), r)]
        rowsets = [c for r in range(0, n - 2) for c in itertools.combinations(range(n), r)]
    for c in colsets:
        for r in rowsets:
            if not c and not r:
                continue
            if tier == "quick" and c and r and (len(c) + len(r)) > 2:
                continue
            add("h_mask", f"EOF|cols={list(c)}|rows={list(r)}", n=n, p=p, cols=c, rows=r)
    for ra, rb in (((1,), (3,)), ((1,), (1,)), ((0,), ()), ((0, 2), (2, 4))):
        add("h_list_rows", f"list|missing samples A={list(ra)} B={list(rb)}", rows_a=ra, rows_b=rb)
    add("h_mask_labels", "EOF|unsorted labels|cols=[1]", cols=(1,), rows=())
    add("h_mask_labels", "EOF|unsorted labels|cols=[0]|rows=[2]", cols=(0,), rows=(2,), n=5, scoords=(5, 3, 9, 1, 7))
    add("h_mask_labels", "EOF|unsorted labels|rows=[1]", cols=(), rows=(1,), n=5, scoords=(5, 3, 9, 1, 7))
    add("h_mask", "EOF|standardize|cols=[1]|rows=[0]", n=n, p=p, cols=(1,), rows=(0,), flags={"standardize": True})
    add("h_mask", "EOF|3d|cell=[2]", n=4, p=4, cols=(2,), rows=(), layout="3d")
    add("h_mask", "EOF|3d|coslat|cell=[0]|rows=[1]", n=4, p=4, cols=(0,), rows=(1,), layout="3d", flags={"use_coslat": True})
    add("h_mask", "EOFRotator|cols=[0]|rows=[4]", n=n, p=p, cols=(0,), rows=(4,), rot={"n_modes": 2, "power": 1})
    cells = [(i, j) for i in range(4) for j in range(3)]
    for cell in cells:
        add("h_isolated", f"isolated|fit|cell={list(cell)}", cells=(cell,), when="fit")
    for cell in cells[:: (1 if tier == "thorough" else 3)]:
        add("h_isolated", f"isolated|transform|cell={list(cell)}", cells=(cell,), when="transform")
    add("h_isolated", "isolated|fit|moving gap (no complete sample)", cells=((0, 0), (1, 1), (2, 2), (3, 0)), when="fit")
    add("h_isolated", "isolated|transform|moving gap (no complete sample)", cells=((0, 0), (1, 1), (2, 2), (3, 0)), when="transform")
    add("h_isolated", "isolated|transform|same count in every sample", cells=((0, 0), (1, 0), (2, 1), (3, 1)), when="transform")
    add("h_isolated", "isolated|fit|two cells same row", cells=((1, 0), (1, 2)), when="fit")
    add("h_isolated", "isolated|fit|cell + missing col", cells=((2, 1),), when="fit", base_cols=(0,))
    add("h_isolated", "isolated|fit|all but one cell of a column", cells=((0, 1), (1, 1), (2, 1)), when="fit")
    for fc, nc in (((0,), (1,)), ((0,), ()), ((), (2,)), ((1,), (1,)), ((), ())):
        add("h_transform_mismatch", f"transform mask|fit={list(fc)}|new={list(nc)}", fit_cols=fc, new_cols=nc)
    # the same with centring off: the Scaler then no longer injects / hides NaNs before the Sanitizer sees the data
    for fc, nc in (((0,), (1,)), ((0,), ()), ((), (2,)), ((1,), (1,))):
        add("h_transform_mismatch", f"transform mask|center=False|fit={list(fc)}|new={list(nc)}", fit_cols=fc, new_cols=nc, flags={"center": False})
    add("h_isolated", "isolated|fit|center=False|cell=[1, 1]", cells=((1, 1),), when="fit", flags={"center": False})
    add("h_isolated", "isolated|transform|center=False|moving gap (no complete sample)", cells=((0, 0), (1, 1), (2, 2), (3, 0)), when="transform", flags={"center": False})
    for rx, ry in (((0,), ()), ((), (4,)), ((1,), (1,)), ((0,), (3,)), ((0, 2), (0, 2))):
        add("h_cross", f"MCA|nan rows X={list(rx)} Y={list(ry)}", rows_x=rx, rows_y=ry, cls="MCA")
    add("h_cross", "CPCCA|alpha=0.5|nan rows X=[0] Y=[3]", rows_x=(0,), rows_y=(3,), cls="CPCCA", alpha=0.5)
    return out
