"""C18 - POP modes are eigen-pairs of the lag-1 feedback matrix."""
from __future__ import annotations

import numpy as np
import xarray as xr

from .common import *  # noqa
from . import models as M

EXPLANATION = (
    "The real POP.fit runs on a symbolic time-ordered data matrix (PCA pre-reduction on or off, SVD / inv / pinv / eig under their contracts; log and angle as "
    "uninterpreted functions). The harness builds the feedback matrix A = C1 C0^-1 independently from the PCA-reduced data the model stored (model.data['input_data']) "
    "and calls the eigen-solver on it itself: the eig stub is a function of its input, so the reported eigenvalues / patterns can only be proved equal to that "
    "decomposition if the matrix the code handed to np.linalg.eig is entry for entry the oracle's A. Obligations for all values: reported eigenvalues == eig(A) in the "
    "order idx_modes_sorted; reported patterns, mapped to PC space, == the eigenvectors in the same order; A p_i == lambda_i p_i for the reported pairs (then the eig "
    "contract itself); damping_times * log|lambda| == -1 and periods * angle(lambda) == 2 pi with the same uninterpreted terms; norms^2 == variance of the coefficient "
    "series and norms descending on every path; transform(X_fit) == scores(); for a noise-free trajectory x_{t+1} = A_true x_t fitted without centring the feedback "
    "matrix == A_true (so the recovered eigenvalues, periods and damping times are the true ones). Inputs are an oscillation plus an arbitrary symbolic perturbation "
    "of every entry (all real values are covered; the WITNESS has a complex eigenvalue pair, damped or growing)."
)
FUNCTIONS = ["POP._fit_algorithm", "POP._np_solve_pop_system", "POP._np_compute_pop_coefficients", "POP._sort_by_variance", "POP._transform_algorithm", "PCA"]
BOUNDS = {"quick": {"n": "4..6", "p": "2..3", "n_pca_modes": 2}, "thorough": {"n": "4..7", "p": "2..3", "n_pca_modes": "2"}}
OUTSIDE = [
    "conjugate pairing of complex eigenvalues and A p = lambda p for the solver's own output are the eig contract (LAPACK, trusted)",
    "real eigenvalues (singular 2x2 system in the coefficient formula: pinv of a singular matrix is outside the inv contract)",
    "values of log / angle (uninterpreted; only the formulas that use them are checked)",
    "n_pca_modes >= 3 (the 3x3 complex eigen-contract exceeds the time limits)",
]
TRUSTED = ["SVD / inv / eig contracts"]
ASSUMPTIONS = ["full rank PCs", "the 2x2 Gram matrix of (Re p, Im p) is invertible (complex eigenvector)"]


def _H(A):
    return np.conjugate(A).T


def _trajectory(n, p, r, theta):
    t = np.arange(n)[:, None]
    ph = np.array([0.0, 1.3, 2.1, 0.6])[None, :p]
    return (r**t) * np.cos(theta * t + ph)


def h_pop(B, n=5, p=2, npca=2, use_pca=True, r=0.9, theta=0.8, check_transform=False, flags=None, real=False, ampl=None):
    """oscillation (witness structure) + arbitrary symbolic perturbation of every entry"""
    E = B.array((n, p), "x", lo=-0.05, hi=0.05)
    if real:
        # witness with two REAL eigenvalues (two decaying modes of different amplitude): the coefficient series have different
        # standard deviations, so the ordering is observable; the symbolic run has no witness there (singular 2x2 system, outside the
        # inv contract) - its open obligations are compared with the concrete run of the same code
        t = np.arange(n)[:, None]
        Xv = 3.0 * (0.9**t) * np.array([[1.0, 0.4]]) + 0.5 * ((-0.6) ** t) * np.array([[-0.3, 1.0]]) + E * 0.1
        _pop_obligations(B, xr.DataArray(Xv, dims=("time", "x"), coords={"time": list(range(n)), "x": XS[:p]}, name="v_x"), n, p, npca, use_pca, check_transform, flags or {}, real=True)
        return
    Xv = _trajectory(n, p, r, theta) + E
    if ampl is not None:
        Xv = Xv * np.array(ampl)[None, :p]  # same generality (invertible diagonal map); the WITNESS has features of very different amplitude
    X = xr.DataArray(Xv, dims=("time", "x"), coords={"time": list(range(n)), "x": XS[:p]}, name="v_x")
    _pop_obligations(B, X, n, p, npca, use_pca, check_transform, flags or {})


def h_linear(B, n=4, r=1.02, theta=0.7, use_pca=False):
    """noise-free trajectory of x_{t+1} = A x_t, A and x_0 symbolic (witness: r * rotation(theta) + small perturbation), fitted without centring"""
    p = 2
    A0 = r * np.array([[np.cos(theta), -np.sin(theta)], [np.sin(theta), np.cos(theta)]])
    A = A0 + B.array((p, p), "dA", lo=-0.03, hi=0.03)
    x = B.array((p,), "x0", lo=0.5, hi=1.5)
    rows = [x]
    for _ in range(n - 1):
        rows.append(B.let(A @ rows[-1], "x_{t+1} = A x_t"))
    Xv = np.stack(rows)
    X = xr.DataArray(Xv, dims=("time", "x"), coords={"time": list(range(n)), "x": XS[:p]}, name="v_x")
    _pop_obligations(B, X, n, p, 2, use_pca, False, {"center": False}, A_true=A)


def _pop_obligations(B, X, n, p, npca, use_pca, check_transform, flags, A_true=None, real=False):
    kw = dict(n_modes=npca, use_pca=use_pca, solver="full")
    if use_pca:
        kw["n_pca_modes"] = npca
    kw.update(flags)
    model = M.single("POP", **kw)
    r = B.completes("POP.fit runs", lambda: model.fit(X, "time"))
    if r is None:
        return
    B.covers("POP._fit_algorithm")
    Z = model.data["input_data"].transpose("sample", "feature").data  # (PCA-reduced) data
    k = Z.shape[1]
    Z0, Z1 = Z[:-1], Z[1:]
    C0 = Z0.T @ Z0
    C1 = Z1.T @ Z0
    A = C1 @ np.linalg.inv(C0)
    lam_o, P_o = np.linalg.eig(A)  # sym: same symbols as the model's own call iff the model decomposed exactly this matrix
    idx = [int(i) for i in np.asarray(model.data["idx_modes_sorted"].values)]
    B.check("idx_modes_sorted is a permutation of the modes", sorted(idx) == list(range(k)), str(idx))
    comps = model.data["components"].transpose("feature", "mode").data  # physical feature space
    if use_pca:
        Vp = model.pca.V.transpose("feature", "mode").data
        Ppc = _H(Vp) @ comps
    else:
        Ppc = comps
    lam = model.data["eigenvalues"].data
    B.eq("eigenvalues() == eig(oracle feedback matrix C1 C0^-1) in the order idx_modes_sorted", lam, lam_o[idx])
    B.eq("components() in PC space == eigenvectors of the oracle feedback matrix in the same order", Ppc, P_o[:, idx])
    # B.alias: the same matrices, entries written with the let-bound names the engine introduced for them (no new symbols)
    B.eq("A p_i == lambda_i p_i (oracle feedback matrix, reported pairs)", B.alias(A) @ P_o[:, idx], P_o[:, idx] * lam)
    tau = model.data["damping_times"].data
    T = model.data["periods"].data
    B.eq("damping_times * log|lambda| == -1", tau * np.log(np.abs(lam)), -np.ones(k))
    if not real:
        B.eq("periods * angle(lambda) == 2 pi", T * np.angle(lam), 2 * np.pi * np.ones(k))
    nrm = model.data["norms"].data
    if k > 1:
        B.ge("modes ordered by descending std of the coefficient series", nrm[:-1], nrm[1:])
    Zs = model.data["scores"].transpose("sample", "mode").data
    D = Zs - Zs.mean(axis=0)
    var = np.real(np.sum(D * np.conjugate(D), axis=0)) / n
    B.eq("norms^2 == variance of the coefficient series", nrm * nrm, B.alias(var))
    if A_true is not None:
        # C1 == A_true C0, and the oracle's A is C1 C0^-1 with C0 invertible (the inv contract's own premise): A == A_true, so the eigenvalues,
        # periods and damping times obtained from A are those of the true system matrix
        B.eq("noise-free trajectory without centring: lag-1 covariance C1 == A_true C0 (hence C1 C0^-1 == A_true)", C1, A_true @ C0)
    if check_transform:
        tr = B.completes("transform(X_fit) runs", lambda: model.transform(X))
        if tr is not None:
            B.eq("transform(X_fit) == scores()", tr, model.scores())


def configs(tier):
    out = []

    def add(key, fn="h_pop", **params):
        out.append({"key": key, "fn": fn, "params": params, "options": {"full_rank": True, "budget_s": 120 if tier == "quick" else 900}})

    add("POP|n5p2|damped", n=5, p=2)
    add("POP|n5p2|growing", n=5, p=2, r=1.05)
    add("POP|n5p2|growing|center=False", n=5, p=2, r=1.2, flags={"center": False})  # witness with |lambda| > 1: damping time negative
    add("POP|n5p2|real eigenvalues at the witness|center=False", n=5, p=2, real=True, use_pca=False, flags={"center": False})
    add("POP|n5p2|no pca|center=False|witness with feature amplitudes 1 and 1e-5", n=5, p=2, use_pca=False, flags={"center": False}, ampl=[1.0, 1e-5])
    out[-1]["options"]["float_rtol"] = 1e-5  # replay tolerance: condition number of C0 is 1e10
    add("POP|n6p3|pca2", n=6, p=3)
    add("POP|n5p2|no pca", n=5, p=2, use_pca=False)
    add("POP|n5p2|no pca|transform", n=5, p=2, use_pca=False, check_transform=True)
    add("POP|n5p2|transform", n=5, p=2, check_transform=True)
    out[-1]["options"]["budget_s"] = 60 if tier == "quick" else 900  # inverse-uniqueness argument over two pinv stubs: usually decided at the witness only
    add("POP|linear system|growing|n5", fn="h_linear", n=5, r=1.02)
    out[-1]["hard_timeout_s"] = 240 if tier == "quick" else 900  # usually 120 s; now and then the first path does not finish - then INCONCLUSIVE, never success
    if tier == "thorough":
        add("POP|n7p3|pca2", n=7, p=3)
        add("POP|n5p2|standardize", n=5, p=2, flags={"standardize": True})
        add("POP|n5p2|center=False", n=5, p=2, flags={"center": False})
        add("POP|linear system|pca|n5", fn="h_linear", n=5, r=1.02, use_pca=True)
        out[-1]["hard_timeout_s"] = 900
        add("POP|linear system|damped|n5", fn="h_linear", n=5, r=0.9)
        out[-1]["hard_timeout_s"] = 900
    return out
