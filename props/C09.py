"""C09 - cross-set models diagonalise the (partially whitened) cross-covariance."""
from __future__ import annotations

import numpy as np
import xarray as xr

from .common import *  # noqa
from . import models as M

EXPLANATION = (
    "Real CPCCA / MCA / CCA / RDA (and Complex MCA) fits on two symbolic fields under the SVD / inv stubs. An oracle builds the fractionally whitened cross-covariance "
    "C_w = (Xc T_x)^H (Yc T_y)/(n-1) from the raw inputs and the model's whitening matrices (C16 checks those). Obligations for all values: Q1^H C_w Q2 == diag(sigma) "
    "(reported singular values), scores_i == whitened data projected on Q_i (hence scores1^H scores2/(n-1) == diag(sigma)), sigma >= 0 and descending; MCA: components "
    "orthonormal, SCF_i * ||C||_F^2 == sigma_i^2 and sum sigma^2 == ||C||_F^2 at full rank; reported correlations: cross-correlation == (S1_i.S2_i)/(|S1_i||S2_i|), "
    "self-correlation matrices have unit diagonal and equal the Gram correlation of the scores."
)
FUNCTIONS = ["CPCCA._fit_algorithm", "_compute_cross_matrix", "_compute_cross_covariance_numpy", "_normalize_data", "_compute_total_squared_covariance", "cross_correlation_coefficients", "correlation_coefficients_X/Y", "squared_covariance_fraction", "Whitener", "PCA", "Decomposer.fit"]
BOUNDS = {"quick": {"n": 4, "p,q": "2..3", "alpha": "{0, 0.5, 1}", "k": 2}, "thorough": {"n": "4..5", "p,q": "2..3", "alpha": "{0,0.5,1}^2", "use_pca": "on/off"}}
OUTSIDE = ["p-values and significance corrections of the homogeneous / heterogeneous patterns (scipy / statsmodels)", "|correlation| <= 1 follows from Cauchy-Schwarz once the reported value is shown to be the Gram correlation (trusted)", "p > n after PCA"]
TRUSTED = ["SVD / inv contracts", "Cauchy-Schwarz"]
ASSUMPTIONS = ["full rank (singular values > 1e-12)", "Gram matrices handed to the SVD are PSD"]


def _H(A):
    return np.conjugate(A).T


def _centre(X):
    A = X.transpose("time", ...).data
    return A - A.mean(axis=0)


def h_cross(B, cls="CPCCA", n=4, p=2, q=2, k=2, alpha=1.0, cplx=False, metrics=True, illcond=False):
    X = da2d(B, "x", n, p, cplx, feat="x")
    if illcond:
        # same symbolic generality (image under an invertible diagonal map), but the WITNESS has one feature in units of 1e-5:
        # feature standard deviations differ by 1e5, inside the property's range of scales
        X = X * xr.DataArray(np.array([1.0] + [1e-5] * (p - 1)), dims=("x",), coords={"x": X["x"].values})
        X.name = "v_x"
    Y = da2d(B, "y", n, q, cplx, feat="y")
    model = M.cross(cls, n_modes=k, alpha=alpha, use_pca=False)
    model.fit(X, Y, "time")
    B.covers(f"{cls}._fit_algorithm")
    Xc, Yc = _centre(X), _centre(Y)
    Tx = model.whitener1.T.transpose(model.feature_name[0], "mode").data if not model.whitener1.is_identity else np.eye(p)
    Ty = model.whitener2.T.transpose(model.feature_name[1], "mode").data if not model.whitener2.is_identity else np.eye(q)
    Xw, Yw = Xc @ Tx, Yc @ Ty
    Cw = B.alias(_H(Xw) @ Yw / (n - 1))
    d = model.data
    Q1 = d["components1"].transpose(model.feature_name[0], "mode").data
    Q2 = d["components2"].transpose(model.feature_name[1], "mode").data
    sv = d["singular_values"].data
    S1 = d["scores1"].copy(deep=True).transpose("sample", "mode").data  # deep copies: later accessor calls must not be able to alter what was read here
    S2 = d["scores2"].copy(deep=True).transpose("sample", "mode").data
    B.eq("Q1^H C_w Q2 == diag(singular values)", _H(Q1) @ Cw @ Q2, np.diag(np.ones(k)) * sv)
    B.eq("scores1 == whitened X projected on Q1", S1, Xw @ Q1)
    B.eq("scores2 == whitened Y projected on Q2", S2, Yw @ Q2)
    # the whitening matrices the model used must whiten the oracle covariances (alpha = 0 fields)
    al = alpha if isinstance(alpha, (list, tuple)) else [alpha, alpha]
    if cls in ("CCA", "ComplexCCA"):
        al = [0.0, 0.0]
    elif cls in ("RDA", "ComplexRDA"):
        al = [0.0, 1.0]
    elif cls in ("MCA", "ComplexMCA"):
        al = [1.0, 1.0]
    for nm, a_, Zc, T_, pp in (("X", al[0], Xc, Tx, p), ("Y", al[1], Yc, Ty, q)):
        if a_ == 0.0:
            Cz = B.alias(_H(Zc) @ Zc / n)
            B.eq(f"field {nm} (alpha=0): T^H C T == I for the oracle covariance C", _H(T_) @ Cz @ T_, np.eye(pp))
    # the same relation through the public accessors, after the non-default variants have been used
    model.scores(normalized=True)
    model.components(normalized=False)
    S1b, S2b = model.scores()
    B.eq("scores() after scores(normalized=True): still the stored scores1", S1b.transpose("time", "mode").data, S1)
    B.eq("scores() after scores(normalized=True): still the stored scores2", S2b.transpose("time", "mode").data, S2)
    B.eq("scores() after scores(normalized=True): data container untouched", model.data["scores1"].transpose("sample", "mode").data, S1)
    B.ge("singular values non-negative", sv, np.zeros(k))
    if k > 1:
        B.ge("singular values descending", sv[:-1], sv[1:])
    B.eq("squared_covariance == sigma^2", d["squared_covariance"].data, sv * sv)
    if cls in ("MCA", "ComplexMCA") or (cls == "CPCCA" and alpha == 1.0):
        B.eq("MCA: components1 orthonormal", _H(Q1) @ Q1, np.eye(k))
        B.eq("MCA: components2 orthonormal", _H(Q2) @ Q2, np.eye(k))
        C = B.alias(_H(Xc) @ Yc / (n - 1))
        fro = np.sum(np.real(C * np.conjugate(C)))
        B.eq("MCA: total squared covariance == ||C||_F^2", d["total_squared_covariance"].data, fro)
        if B.tier == "thorough":
            B.eq("MCA: SCF_i * ||C||_F^2 == sigma_i^2", model.squared_covariance_fraction().data * fro, sv * sv)
            if k == min(p, q):
                B.eq("MCA at full rank: sum sigma_i^2 == ||C||_F^2", np.sum(sv * sv), fro)
    if metrics and not cplx:
        cc = model.cross_correlation_coefficients().data
        sd1, sd2 = np.std(S1, axis=0, ddof=1), np.std(S2, axis=0, ddof=1)
        for i in range(k):
            B.eq(f"mode {i + 1}: reported cross-correlation * std1 * std2 * (n-1) == S1_i . S2_i", cc[i] * sd1[i] * sd2[i] * (n - 1), np.sum(S1[:, i] * S2[:, i]))
        for nm, S, sd in (("X", S1, sd1), ("Y", S2, sd2)):
            R = getattr(model, f"correlation_coefficients_{nm}")().data
            for i in range(k):
                B.eq(f"correlation_coefficients_{nm}: self-correlation of mode {i + 1} is one", R[i, i], 1.0)
            if k > 1:
                B.eq(f"correlation_coefficients_{nm}[1,2] * std_1 * std_2 * (n-1) == S_1 . S_2", R[0, 1] * sd[0] * sd[1] * (n - 1), np.sum(S[:, 0] * S[:, 1]))


def h_scores_cov(B, cls="HilbertCCA", n=6, p=2, q=2, k=2, use_pca=True):
    """model-level consequences that need no oracle for the (Hilbert / PCA) pre-processing: for fields whitened with alpha = 0 the
    scores have identity covariance (1/n normalisation of the whitener), and the paired scores carry the reported singular values"""
    X = da2d(B, "x", n, p, feat="x")
    Y = da2d(B, "y", n, q, feat="y")
    kw = {"padding": "none"} if cls.startswith("Hilbert") else {}
    model = M.cross(cls, n_modes=k, use_pca=use_pca, n_pca_modes="all", **kw)
    model.fit(X, Y, "time")
    B.covers(f"{cls}._fit_algorithm (use_pca={use_pca})")
    d = model.data
    S1 = d["scores1"].copy(deep=True).transpose("sample", "mode").data
    S2 = d["scores2"].copy(deep=True).transpose("sample", "mode").data
    sv = d["singular_values"].data
    B.eq("scores1^H scores2 / (n-1) == diag(singular values)", _H(S1) @ S2 / (n - 1), np.diag(np.ones(k)) * sv, scale_of=[S1, S2])
    B.eq("alpha=0 field X: scores1^H scores1 / n == I", _H(S1) @ S1 / n, np.eye(k))
    B.eq("alpha=0 field Y: scores2^H scores2 / n == I", _H(S2) @ S2 / n, np.eye(k))
    for i in range(k):
        # canonical correlations are correlations: sigma_i * (n-1)/n <= 1
        B.ge(f"canonical correlation {i + 1} does not exceed one", np.ones(1), sv[i : i + 1] * (n - 1) / n)


def h_patterns(B, cls="MCA", n=4, p=2, q=2, k=2, lagged=False):
    """homogeneous / heterogeneous patterns (correction=None) are the Pearson correlations between each field and the score series -
    of its own field / of the OTHER field, paired by position (a lagged analysis has different sample labels in X and Y)"""
    import xeofs.utils.optional.statistics as st

    X = da2d(B, "x", n, p, feat="x")
    Y = da2d(B, "y", n, q, feat="y", scoords=list(range(1, n + 1)) if lagged else None)
    model = M.cross(cls, n_modes=k, use_pca=False)
    r = B.completes("fit runs", lambda: model.fit(X, Y, "time"))
    if r is None:
        return
    Xc, Yc = _centre(X), _centre(Y)
    S1 = model.data["scores1"].copy(deep=True).transpose("sample", "mode").data
    S2 = model.data["scores2"].copy(deep=True).transpose("sample", "mode").data
    saved = st._compute_pvalues
    st._compute_pvalues = lambda corr, n_samples: corr * 0  # p-values (scipy's beta distribution) are outside the claim
    try:
        for meth, pairs in (("homogeneous_patterns", ((Xc, S1), (Yc, S2))), ("heterogeneous_patterns", ((Xc, S2), (Yc, S1)))):
            B.covers(f"{cls}.{meth}", "pearson_correlation")
            res = B.completes(f"{meth}() runs", lambda: getattr(model, meth)())
            if res is None:
                continue
            (P1, P2), _ = res
            for nm, P, fd, (Z, S) in (("X", P1, "x", pairs[0]), ("Y", P2, "y", pairs[1])):
                Pd = P.transpose(fd, "mode").data
                sz, ss = np.std(Z, axis=0), np.std(S, axis=0)
                B.eq(f"{meth}: field {nm}: pattern * std(field) * std(score) * n == sum_t field_t score_t (paired by position)", Pd * sz.reshape((-1, 1)) * ss.reshape((1, -1)) * n, Z.T @ S)
    finally:
        st._compute_pvalues = saved


def configs(tier):
    out = []

    def add(fn, key, **params):
        o = {"full_rank": True, "hermitian_psd_inputs": True, "budget_s": 100 if tier == "quick" else 900}
        if params.get("illcond"):
            o["float_rtol"] = 1e-4  # replay tolerance for a witness with condition number 1e5 (rounding ~ cond^2 * eps)
        out.append({"key": key, "fn": fn, "params": params, "options": o})

    add("h_cross", "MCA|p2q2", cls="MCA")
    add("h_cross", "MCA|p3q2", cls="MCA", p=3, q=2)
    add("h_cross", "CCA|p2q2", cls="CCA")
    add("h_cross", "CCA|p2q2|witness with feature scales 1 and 1e-5", cls="CCA", illcond=True, metrics=False)
    add("h_cross", "CPCCA|alpha=0.5|p2q2", cls="CPCCA", alpha=0.5)
    add("h_cross", "ComplexMCA|p2q2", cls="ComplexMCA", cplx=True)
    add("h_patterns", "MCA|patterns|p2q2", cls="MCA")
    add("h_patterns", "MCA|patterns|p2q2|X and Y carry different sample labels (lagged)", cls="MCA", lagged=True)
    add("h_scores_cov", "HilbertCCA|pca=1|n6 (decided at witnesses)", cls="HilbertCCA", use_pca=True)
    add("h_cross", "ComplexCCA|p2q2", cls="ComplexCCA", cplx=True, metrics=False)
    if tier == "thorough":
        add("h_patterns", "CCA|patterns|p2q2|X and Y carry different sample labels (lagged)", cls="CCA", lagged=True)  # through T and Tinv: mostly decided at the witness
        add("h_cross", "RDA|p2q2", cls="RDA")
        add("h_cross", "CPCCA|alpha=[0.5,1.0]|p2q2", cls="CPCCA", alpha=[0.5, 1.0])
        add("h_cross", "CPCCA|alpha=[0.0,0.5]|p2q2", cls="CPCCA", alpha=[0.0, 0.5])
        add("h_cross", "CCA|p3q2", cls="CCA", p=3, q=2, n=5)
        add("h_cross", "MCA|n5p3q3k3", cls="MCA", n=5, p=3, q=3, k=3)
    return out
