"""C02 - outputs keep the input's structure and attach every value to its own label."""
from __future__ import annotations

import itertools

import numpy as np
import pandas as pd
import xarray as xr

from .common import *  # noqa
from . import models as M
from xeofs.preprocessing.preprocessor import Preprocessor

EXPLANATION = (
    "Every input cell is a distinct symbol. The real Preprocessor.fit_transform -> inverse_transform_data round trip and the real model accessors "
    "(components / scores / inverse_transform) run on enumerated layouts (container kind x sample dims x feature dims x dimension order x index kind "
    "x Dataset variables with equal/different dims x sample/feature names x flags). Obligations: same container type, variable names, dims and coordinate "
    "label sets (order along a dimension may be sorted); value at every label is the input symbol at that label (term identity, all values); the 2-D matrix "
    "contains every input cell exactly once; components have feature dims + mode, scores sample dims + mode."
)
FUNCTIONS = ["Preprocessor._fit_algorithm / inverse_transform_data / _components / _scores", "extract_new_dim_names", "DimensionRenamer", "MultiIndexConverter", "Stacker._stack / _unstack_to_dataarray / _unstack_to_dataset_*", "Sanitizer", "Concatenator", "GenericListTransformer", "Scaler"]
BOUNDS = {
    "quick": {"layouts": "hand-picked covering set (~45)", "dim sizes": "2..3", "sample dims": "1..2", "feature dims": "1..2 (3 in one layout)"},
    "thorough": {"layouts": "product of container x dims x order x index kind x names under the size bound", "dim sizes": "2..3", "sample dims": "1..3", "feature dims": "1..3"},
}
OUTSIDE = ["dimension sizes above 3", "dask-backed inputs (C12)"]
TRUSTED = ["xarray / pandas label bookkeeping executes concretely (stack, unstack, reindex, concat, to_stacked_array)"]
ASSUMPTIONS = []

KINDS = ("int", "float-unsorted", "str", "datetime", "int-desc")


def coord(kind, n, salt=0):
    if kind == "int":
        return list(range(10 + salt, 10 + salt + n))
    if kind == "int-desc":
        return list(range(10 + salt + n, 10 + salt, -1))
    if kind == "float-unsorted":
        return [2.5, -1.0, 7.25, 0.5][:n]
    if kind == "str":
        return ["b", "a", "d", "c"][:n]
    if kind == "datetime":
        return list(pd.date_range("2001-01-01", periods=n, freq="D")[::-1])
    raise ValueError(kind)


def coord_new(kind, n):
    """labels for unseen data: disjoint from coord(kind, ...)"""
    if kind in ("int", "int-desc"):
        return list(range(500, 500 + n))
    if kind == "float-unsorted":
        return [102.5, 99.0, 107.25, 100.5][:n]
    if kind == "str":
        return ["q", "p", "s", "r"][:n]
    if kind == "datetime":
        return list(pd.date_range("2010-06-01", periods=n, freq="D"))
    raise ValueError(kind)


def build(B, spec, name="x", relabel=()):
    """spec: {'dims': [(name, size, kind)], 'order': optional list of names} -> DataArray of distinct symbols"""
    dims = spec["dims"]
    order = spec.get("order") or [d[0] for d in dims]
    byname = {d[0]: d for d in dims}
    shape = tuple(byname[d][1] for d in order)
    A = B.array(shape, name)
    coords = {d: (coord_new(byname[d][2], byname[d][1]) if d in relabel else coord(byname[d][2], byname[d][1], sum(map(ord, d)) % 5)) for d in order}
    da = xr.DataArray(A, dims=order, coords=coords, name="v_" + name)
    for extra in spec.get("extra_coords", []):
        d0 = extra
        da = da.assign_coords({f"aux_{d0}": (d0, [f"k{i}" for i in range(byname[d0][1])])})
    for d0 in spec.get("reverse", []):
        # the same labels, stored in the opposite order
        da = da.isel({d0: slice(None, None, -1)})
    for (d0, i0) in spec.get("nan_at", []):
        # a fully missing label along d0 (the Sanitizer removes it and puts it back)
        m = xr.DataArray(np.arange(byname[d0][1]) == i0, dims=(d0,), coords={d0: da[d0]})
        da = da.where(~m)
        da.name = "v_" + name
    for new, parts in spec.get("stack", {}).items():
        da = da.stack({new: parts})
    return da


def make(B, L, name="x", relabel=()):
    c = L["container"]
    if c == "DataArray":
        return build(B, L["spec"], name=name, relabel=relabel)
    if c == "Dataset":
        return xr.Dataset({v: build(B, s, name=f"{name}{v}", relabel=relabel) for v, s in L["vars"].items()})
    if c == "list":
        return [build(B, s, name=f"{name}{i}", relabel=relabel) for i, s in enumerate(L["items"])]
    raise ValueError(c)


def _items(X):
    if isinstance(X, list):
        return X
    return [X]


def _cells(obj_):
    """all symbolic cells of a data object as polynomial keys (NaN excluded)"""
    from symx.scalars import Sym

    out = []
    if isinstance(obj_, xr.Dataset):
        for v in obj_.data_vars:
            out += _cells(obj_[v])
        return out
    if isinstance(obj_, list):
        for o in obj_:
            out += _cells(o)
        return out
    d = obj_.data
    a = d.a if hasattr(d, "a") else np.asarray(d)
    for x in a.flat:
        if isinstance(x, Sym):
            out.append(x.p.key())
        elif x == x:
            out.append(("c", float(x)))
    return out


def h_prep(B, L=None, flags=None, sample_name="sample", feature_name="feature", weights=False):
    flags = dict(flags or {})
    X = make(B, L)
    sdims = tuple(L["sample_dims"])
    P = Preprocessor(sample_name=sample_name, feature_name=feature_name, with_center=flags.get("center", False), with_std=flags.get("standardize", False), with_coslat=flags.get("use_coslat", False))
    B.covers("Preprocessor.fit_transform", "Preprocessor.inverse_transform_data")
    w = None
    if weights:
        w = _weights_for(B, X, sdims)
    X2 = B.completes("fit_transform runs", lambda: P.fit_transform(X, sdims, w))
    if X2 is None:
        return
    B.check("2-D matrix has dims (sample, feature)", tuple(X2.dims) == (sample_name, feature_name), f"dims {X2.dims}")
    if not flags and not weights:
        a, b = sorted(map(repr, _cells(X2))), sorted(map(repr, _cells(X)))
        B.check("every input cell appears exactly once in the 2-D matrix", a == b, f"{len(a)} cells vs {len(b)} input cells")
    back = B.completes("inverse_transform_data runs", lambda: P.inverse_transform_data(X2))
    if back is None:
        return
    _same_structure(B, "round trip", back, X)
    B.eq("round trip: value at every label == input", back, X, ignore_order=True)


def _weights_for(B, X, sdims):
    def one(da, nm):
        fd = [d for d in da.dims if d not in sdims]
        W = B.array(tuple(da.sizes[d] for d in fd), nm, positive=True)
        return xr.DataArray(W, dims=fd, coords={d: da.coords[d] for d in fd})

    if isinstance(X, list):
        return [one(x, f"w{i}") if not isinstance(x, xr.Dataset) else xr.Dataset({v: one(x[v], f"w{i}{v}") for v in x.data_vars}) for i, x in enumerate(X)]
    if isinstance(X, xr.Dataset):
        return xr.Dataset({v: one(X[v], f"w{v}") for v in X.data_vars})
    return one(X, "w")


def _same_structure(B, what, got, exp, extra_dims=(), drop_dims=()):
    """container type, variable names, dims (as sets, plus/minus the stated ones) and coordinate label sets"""
    if isinstance(exp, list):
        ok = isinstance(got, list) and len(got) == len(exp)
        B.check(f"{what}: list of {len(exp)} items", ok, f"got {type(got).__name__}" + (f" of {len(got)}" if isinstance(got, list) else ""))
        if ok:
            for i, (g, e) in enumerate(zip(got, exp)):
                _same_structure(B, f"{what}[{i}]", g, e, extra_dims, drop_dims)
        return
    B.check(f"{what}: container type {type(exp).__name__}", type(got) is type(exp), f"got {type(got).__name__}")
    if type(got) is not type(exp):
        return
    if isinstance(exp, xr.Dataset):
        B.check(f"{what}: variable names", set(got.data_vars) == set(exp.data_vars), f"{sorted(map(str, got.data_vars))} vs {sorted(map(str, exp.data_vars))}")
        for v in exp.data_vars:
            if v in got.data_vars:
                _same_structure(B, f"{what}[{v}]", got[v], exp[v], extra_dims, drop_dims)
        return
    want = (set(exp.dims) - set(drop_dims)) | set(extra_dims)
    B.check(f"{what}: dims", set(got.dims) == want, f"got {got.dims}, expected {sorted(map(str, want))}")
    for d in want & set(exp.dims) & set(got.dims):
        ge, ee = got.indexes[d], exp.indexes[d]
        same = len(ge) == len(ee) and set(ge) == set(ee)
        B.check(f"{what}: labels of {d}", same, f"{list(ge)[:5]} vs {list(ee)[:5]}")
        B.check(f"{what}: index type of {d}", isinstance(ge, pd.MultiIndex) == isinstance(ee, pd.MultiIndex), f"{type(ge).__name__} vs {type(ee).__name__}")


def _sample_labels(obj_, sdims):
    first = _items(obj_)[0]
    first = first[list(first.data_vars)[0]] if isinstance(first, xr.Dataset) else first
    return {d: set(first.indexes[d]) for d in sdims}


def h_model(B, L=None, flags=None, sample_name="sample", feature_name="feature", k=2, unseen=False):
    flags = dict(flags or {})
    X = make(B, L)
    sdims = tuple(L["sample_dims"])
    model = M.single("EOF", n_modes=k, solver="full", sample_name=sample_name, feature_name=feature_name, **flags)
    r = B.completes("fit runs", lambda: model.fit(X, sdims if len(sdims) > 1 else sdims[0]))
    if r is None:
        return
    if unseen:
        # 'fit vs. unseen reference': data with other sample labels goes through the fitted chain; its scores carry ITS labels,
        # and everything derived from the fitted data afterwards still carries the FITTED labels
        stack = L.get("spec", {}).get("stack", {}) if L["container"] == "DataArray" else {}
        rel = set(sdims)
        for new_, parts in stack.items():
            if new_ in sdims:
                rel |= set(parts)
        Y = make(B, L, name="y", relabel=rel)
        B.covers("EOF.transform (unseen data)")
        ty = B.completes("transform(unseen data) runs", lambda: model.transform(Y))
        if ty is not None:
            wantY = _sample_labels(Y, sdims)
            B.check("transform(unseen): dims == sample dims + mode", set(ty.dims) == set(sdims) | {"mode"}, f"got {ty.dims}")
            for d in sdims:
                if d in ty.dims:
                    B.check(f"transform(unseen): labels of {d} are those of the new data", set(ty.indexes[d]) == wantY[d], f"{list(ty.indexes[d])[:5]}")
    if unseen and isinstance(X, xr.DataArray) and X.ndim >= 3:
        # the same values handed to transform in another dimension order (data is addressed by label, never by position):
        # every value must still land on its own feature label, i.e. the scores are those of the fit
        Xr = X.transpose(*reversed(X.dims))
        tr = B.completes("transform(training data, dimensions in reverse order) runs", lambda: model.transform(Xr))
        if tr is not None:
            B.eq("transform(training data, dimensions in reverse order) == scores()", tr, model.scores())
    B.covers("EOF.components", "EOF.scores", "EOF.inverse_transform")
    comps = B.completes("components() runs", lambda: model.components())
    if comps is not None:
        _same_structure(B, "components", comps, X, extra_dims=("mode",), drop_dims=sdims)
    sc = B.completes("scores() runs", lambda: model.scores())
    if sc is not None:
        first = _items(X)[0]
        first = first[list(first.data_vars)[0]] if isinstance(first, xr.Dataset) else first
        want = set(sdims) | {"mode"}
        B.check("scores: dims == sample dims + mode", set(sc.dims) == want, f"got {sc.dims}")
        for d in sdims:
            if d in sc.dims:
                B.check(f"scores: labels of {d}", set(sc.indexes[d]) == set(first.indexes[d]), f"{list(sc.indexes[d])[:5]}")
        rec = B.completes("inverse_transform(scores()) runs", lambda: model.inverse_transform(sc))
        if rec is not None:
            _same_structure(B, "reconstruction", rec, X)


# ---------------------------------------------------------------------------------------


def _da(sample, feature, order=None, **kw):
    dims = [(n, s, k) for (n, s, k) in sample] + [(n, s, k) for (n, s, k) in feature]
    return {"container": "DataArray", "spec": dict({"dims": dims, "order": order}, **kw), "sample_dims": [n for n, _, _ in sample]}


def layouts(tier):
    out = {}
    # DataArray: index kinds, dimension orders
    for kind in KINDS:
        out[f"DA|1s1f|{kind}"] = _da([("time", 3, kind)], [("x", 2, kind)])
    out["DA|1s2f"] = _da([("time", 3, "int")], [("lat", 2, "float-unsorted"), ("lon", 2, "str")])
    out["DA|1s2f|order=lon,time,lat"] = _da([("time", 3, "int")], [("lat", 2, "int"), ("lon", 2, "int-desc")], order=["lon", "time", "lat"])
    out["DA|2s1f"] = _da([("t1", 2, "str"), ("t2", 2, "int")], [("x", 2, "int")])
    out["DA|2s2f|order=lat,t2,lon,t1"] = _da([("t1", 2, "int"), ("t2", 2, "datetime")], [("lat", 2, "int"), ("lon", 2, "str")], order=["lat", "t2", "lon", "t1"])
    out["DA|1s3f"] = _da([("time", 3, "int")], [("a", 2, "int"), ("b", 2, "str"), ("c", 2, "int-desc")])
    out["DA|feature-first"] = _da([("time", 3, "int")], [("x", 2, "int")], order=["x", "time"])
    out["DA|extra-coords"] = _da([("time", 3, "int")], [("x", 2, "int")], extra_coords=["time", "x"])
    out["DA|multiindex-sample"] = dict(_da([("t1", 2, "str"), ("t2", 2, "int")], [("x", 2, "int")], stack={"time": ("t1", "t2")}), sample_dims=["time"])
    out["DA|multiindex-feature"] = dict(_da([("time", 3, "int")], [("lat", 2, "int"), ("lon", 2, "str")], stack={"space": ("lat", "lon")}), sample_dims=["time"])
    out["DA|dims-named-sample-feature"] = _da([("sample", 3, "int")], [("feature", 2, "int")])
    # fully missing feature / sample on axes whose labels are not ascending
    out["DA|1s1f|float-unsorted|missing feature"] = _da([("time", 3, "int")], [("x", 3, "float-unsorted")], nan_at=[("x", 1)])
    out["DA|1s1f|str|missing feature"] = _da([("time", 4, "str")], [("x", 3, "str")], nan_at=[("x", 0)])
    out["DA|1s2f|missing cell column"] = _da([("time", 3, "int")], [("lat", 2, "float-unsorted"), ("lon", 2, "str")], nan_at=[("lon", 0)])
    # Dataset
    v1 = {"dims": [("time", 3, "int"), ("x", 2, "str")]}
    v2 = {"dims": [("time", 3, "int"), ("x", 2, "str")], "order": ["x", "time"]}
    out["DS|same-dims"] = {"container": "Dataset", "vars": {"A": v1, "B": v1}, "sample_dims": ["time"]}
    out["DS|same-dims|transposed-var"] = {"container": "Dataset", "vars": {"A": v1, "B": v2}, "sample_dims": ["time"]}
    out["DS|different-dims"] = {"container": "Dataset", "vars": {"A": {"dims": [("time", 3, "int"), ("lat", 2, "int"), ("lon", 2, "int")]}, "B": {"dims": [("time", 3, "int"), ("z", 2, "int")]}}, "sample_dims": ["time"]}
    out["DS|subset-dims"] = {"container": "Dataset", "vars": {"A": {"dims": [("time", 3, "int"), ("lat", 2, "int"), ("lon", 2, "int")]}, "B": {"dims": [("time", 3, "int"), ("lat", 2, "int")]}}, "sample_dims": ["time"]}
    out["DS|2s"] = {"container": "Dataset", "vars": {"A": {"dims": [("t1", 2, "int"), ("t2", 2, "str"), ("x", 2, "int")]}, "B": {"dims": [("t1", 2, "int"), ("t2", 2, "str"), ("x", 2, "int")]}}, "sample_dims": ["t1", "t2"]}
    out["DS|one-var"] = {"container": "Dataset", "vars": {"A": v1}, "sample_dims": ["time"]}
    # lists
    i1 = {"dims": [("time", 3, "int"), ("x", 2, "int")]}
    i2 = {"dims": [("time", 3, "int"), ("y", 3, "str")]}
    i3 = {"dims": [("time", 3, "int"), ("lat", 2, "int"), ("lon", 2, "int")]}
    out["LIST|2 items"] = {"container": "list", "items": [i1, i2], "sample_dims": ["time"]}
    out["LIST|same feature dim name"] = {"container": "list", "items": [i1, i1], "sample_dims": ["time"]}
    out["LIST|sample dim at different positions"] = {"container": "list", "items": [i3, {"dims": [("time", 3, "int"), ("lon2", 2, "int")], "order": ["lon2", "time"]}], "sample_dims": ["time"]}
    out["LIST|1 item"] = {"container": "list", "items": [i3], "sample_dims": ["time"]}
    out["LIST|second item stores the samples in reverse order"] = {"container": "list", "items": [i3, dict(i2, reverse=["time"])], "sample_dims": ["time"]}
    out["LIST|first item stores the samples in reverse order"] = {"container": "list", "items": [dict(i1, reverse=["time"]), i2], "sample_dims": ["time"]}
    out["LIST|3 items mixed rank"] = {"container": "list", "items": [i1, i3, i2], "sample_dims": ["time"]}
    if tier == "thorough":
        # product: 1..2 sample dims x 1..2 feature dims x all orders x index kinds (one kind per layout)
        for ns, nf in ((1, 1), (1, 2), (2, 1), (2, 2)):
            s = [(f"s{i}", 2, None) for i in range(ns)]
            f = [(f"f{i}", 2, None) for i in range(nf)]
            names = [n for n, _, _ in s + f]
            for order in itertools.permutations(names):
                for kind in KINDS:
                    key = f"DA|prod|{ns}s{nf}f|{','.join(order)}|{kind}"
                    out[key] = _da([(n, z, kind) for n, z, _ in s], [(n, z, kind) for n, z, _ in f], order=list(order))
    return out


def configs(tier):
    out = []
    L = layouts(tier)
    for key, lay in L.items():
        out.append({"key": f"prep|{key}", "fn": "h_prep", "params": {"L": lay}})
        if "prod" in key:
            continue
        out.append({"key": f"model|{key}", "fn": "h_model", "params": {"L": lay}})
        if key in ("DA|1s1f|str", "DA|2s1f", "DA|2s2f|order=lat,t2,lon,t1", "DA|multiindex-sample", "DA|multiindex-feature", "DS|2s", "DS|same-dims", "LIST|2 items"):
            out.append({"key": f"model+unseen|{key}", "fn": "h_model", "params": {"L": lay, "unseen": True}})
    sel = ["DA|1s2f", "DS|same-dims", "LIST|2 items", "DA|2s2f|order=lat,t2,lon,t1"]
    for key in sel:
        lay = L[key]
        for fl in ({"center": True}, {"center": True, "standardize": True}):
            out.append({"key": f"prep|{key}|{keyof(fl)}", "fn": "h_prep", "params": {"L": lay, "flags": fl}})
        out.append({"key": f"prep|{key}|weights", "fn": "h_prep", "params": {"L": lay, "weights": True}})
        out.append({"key": f"prep|{key}|names=s,f", "fn": "h_prep", "params": {"L": lay, "sample_name": "s", "feature_name": "f"}})
        out.append({"key": f"model|{key}|names=s,f", "fn": "h_model", "params": {"L": lay, "sample_name": "s", "feature_name": "f"}})
    return out
