"""Shared builders for the property harnesses (inputs, models, oracles)."""
from __future__ import annotations

import itertools
import warnings

import numpy as np
import pandas as pd
import xarray as xr

import symx.stubs  # noqa: F401  (installs the statsmodels shim before xeofs.cross is imported)
import xeofs as xe

warnings.filterwarnings("ignore")

XS = [10.0, 20.0, 30.0, 40.0, 50.0]
LATS = [-60.0, 0.0, 30.0, 75.0]


def da2d(B, name, n, p, complex_=False, sample="time", feat="x", nan_mask=None, scoords=None, fcoords=None):
    """(sample, feature) DataArray with symbolic entries"""
    X = B.array((n, p), name, complex_, nan_mask=nan_mask)
    return xr.DataArray(
        X,
        dims=(sample, feat),
        coords={sample: list(range(n)) if scoords is None else scoords, feat: XS[:p] if fcoords is None else fcoords},
        name="v_" + name,
    )


def da3d(B, name, n, p1, p2, complex_=False, order=("time", "lat", "lon"), nan_mask=None):
    sizes = {"time": n, "lat": p1, "lon": p2}
    coords = {"time": list(range(n)), "lat": LATS[:p1], "lon": XS[:p2]}
    X = B.array(tuple(sizes[d] for d in order), name, complex_, nan_mask=nan_mask)
    return xr.DataArray(X, dims=order, coords={d: coords[d] for d in order}, name="v_" + name)


def weights_like(B, name, da, feat_dims):
    shape = tuple(da.sizes[d] for d in feat_dims)
    W = B.array(shape, name, positive=True)
    return xr.DataArray(W, dims=feat_dims, coords={d: da.coords[d] for d in feat_dims})


def flagsets(tier):
    """preprocessing flag combinations"""
    base = [
        dict(),
        dict(standardize=True),
        dict(center=False),
    ]
    base += [dict(standardize=True, center=False)]
    return base


def keyof(d):
    if not d:
        return "default"
    return ",".join(f"{k}={v}" for k, v in sorted(d.items()))


def mode_scores(B, k, n, name="S", complex_=False, sample="time", scoords=None):
    """arbitrary symbolic score array (mode, sample)"""
    S = B.array((n, k), name, complex_)
    return xr.DataArray(S, dims=(sample, "mode"), coords={sample: list(range(n)) if scoords is None else scoords, "mode": list(range(1, k + 1))}, name="scores")


# ---------------------------------------------------------------------------------------
# independent oracles (written directly on the raw input arrays; work for SymArray and float ndarray)


def oracle_matrix(X, sample_dim="time", center=True, standardize=False, use_coslat=False, weights=None, B=None):
    """(n, p) matrix the model is documented to decompose: ((X - mean)/std) * sqrt(cos(lat)) * w, features flattened in the
    order of X's non-sample dims; returns (matrix, list of feature labels)"""
    fd = [d for d in X.dims if d != sample_dim]
    Xt = X.transpose(sample_dim, *fd)
    n = Xt.sizes[sample_dim]
    A = Xt.data.reshape((n, -1))
    if center:
        A = A - A.mean(axis=0)
    if standardize:
        sd = A.std(axis=0)
        if B is not None:
            B.assume_gt(sd, float(np.finfo(np.float32).eps), "every feature's standard deviation exceeds the 1.2e-7 floor at which standardisation clips")
        A = A / sd
    p = A.shape[1]
    f = np.ones(p)
    if use_coslat:
        lat = X["lat"].values
        w = np.sqrt(np.clip(np.cos(np.deg2rad(lat)), 0, 1))
        wl = xr.DataArray(w, dims=("lat",), coords={"lat": X["lat"]})
        ones = xr.DataArray(np.ones([X.sizes[d] for d in fd]), dims=fd, coords={d: X[d] for d in fd})
        f = (ones * wl).transpose(*fd).values.reshape(-1)
        A = A * f
    if weights is not None:
        ones = xr.DataArray(np.ones([X.sizes[d] for d in fd]), dims=fd, coords={d: X[d] for d in fd})
        wv = (ones * weights).transpose(*fd).data.reshape(-1)
        A = A * wv
    labels = list(itertools.product(*[list(X[d].values) for d in fd]))
    return A, labels


def ctranspose(A):
    return np.conjugate(A).T
