"""Shared builders for the property harnesses (inputs, models, oracles)."""
from __future__ import annotations

import itertools
import warnings

import numpy as np
import pandas as pd
import xarray as xr

import symx.stubs  # noqa: F401  (installs the statsmodels shim before xeofs.cross is imported)
import xeofs as xe

warnings.filterwarnings("ignore")

XS = [10.0, 20.0, 30.0, 40.0, 50.0]
LATS = [-60.0, 0.0, 30.0, 75.0]


def da2d(B, name, n, p, complex_=False, sample="time", feat="x", nan_mask=None, scoords=None, fcoords=None):
    """(sample, feature) DataArray with symbolic entries"""
    X = B.array((n, p), name, complex_, nan_mask=nan_mask)
    return xr.DataArray(
        X,
        dims=(sample, feat),
        coords={sample: list(range(n)) if scoords is None else scoords, feat: XS[:p] if fcoords is None else fcoords},
        name="v_" + name,
    )


def da3d(B, name, n, p1, p2, complex_=False, order=("time", "lat", "lon"), nan_mask=None):
    sizes = {"time": n, "lat": p1, "lon": p2}
    coords = {"time": list(range(n)), "lat": LATS[:p1], "lon": XS[:p2]}
    X = B.array(tuple(sizes[d] for d in order), name, complex_, nan_mask=nan_mask)
    return xr.DataArray(X, dims=order, coords={d: coords[d] for d in order}, name="v_" + name)


def weights_like(B, name, da, feat_dims):
    shape = tuple(da.sizes[d] for d in feat_dims)
    W = B.array(shape, name, positive=True)
    return xr.DataArray(W, dims=feat_dims, coords={d: da.coords[d] for d in feat_dims})


def flagsets(tier):
    """preprocessing flag combinations"""
    base = [
        dict(),
        dict(standardize=True),
        dict(center=False),
    ]
    if tier == "thorough":
        base += [dict(standardize=True, center=False)]
    return base


def keyof(d):
    if not d:
        return "default"
    return ",".join(f"{k}={v}" for k, v in sorted(d.items()))


def mode_scores(B, k, n, name="S", complex_=False, sample="time", scoords=None):
    """arbitrary symbolic score array (mode, sample)"""
    S = B.array((n, k), name, complex_)
    return xr.DataArray(S, dims=(sample, "mode"), coords={sample: list(range(n)) if scoords is None else scoords, "mode": list(range(1, k + 1))}, name="scores")
