"""C07 - results do not depend on how the same data is laid out or named."""
from __future__ import annotations

import numpy as np
import xarray as xr

from .common import *  # noqa
from . import models as M

EXPLANATION = (
    "Metamorphic pairs of real fits on ONE symbolic data set presented in two ways: transposed dimensions, permuted features, features split over Dataset "
    "variables / list items, other sample_name / feature_name strings, permuted samples. The second fit's SVD input is syntactically verified to be a row/column "
    "permutation of the first (SVD equivariance), the REAL deterministic sign convention runs un-stubbed (its max/min/abs comparisons are path decisions shared by "
    "both fits). Obligations for all values: equal singular values, components equal at each label, scores equal (permuted identically for sample permutations)."
)
FUNCTIONS = ["Stacker._stack", "DimensionRenamer", "Concatenator", "Decomposer.fit", "get_deterministic_sign_multiplier (real, not stubbed)", "ExtendedEOF._fit_algorithm", "EOFBootstrapper.fit", "EOFRotator._fit_algorithm", "BaseModelCrossSet.fit"]
BOUNDS = {"quick": {"n": 4, "p": "2..4", "k": 2}, "thorough": {"n": "4..5", "p": "2..4", "k": "2..3"}}
OUTSIDE = ["exact ties in the sign convention", "LAPACK's own sign choice (idealised as consistent; removed by the sign convention)", "OPA / POP / SparsePCA naming invariance is checked in C19 / C18 / their own harnesses when they are encodable"]
TRUSTED = ["SVD equivariance under row/column permutations"]
ASSUMPTIONS = []


def _cmp(B, tag, m1, m2, comp_map=None, sample_perm=None):
    B.eq(f"{tag}: singular values", m2.data["norms"], m1.data["norms"])
    B.eq(f"{tag}: explained variance", m2.explained_variance(), m1.explained_variance())
    c1, c2 = m1.components(), m2.components()
    if comp_map is not None:
        c2 = comp_map(c2)
    B.eq(f"{tag}: components at each label", c2, c1, ignore_order=True)
    B.eq(f"{tag}: scores", m2.scores(), m1.scores(), ignore_order=True)


def _fit(cls, X, dim, k=2, rot=None, weights=None, **kw):
    m = M.single(cls, n_modes=k, solver="full", **kw)
    m.fit(X, dim, weights=weights) if weights is not None else m.fit(X, dim)
    if rot:
        m = M.rotate(m, **rot)
    return m


def h_transpose(B, cls="EOF", n=4, p=4, rot=None, order=("lon", "time", "lat")):
    cplx = cls == "ComplexEOF"
    X = da3d(B, "x", n, 2, p // 2, cplx)
    m1 = _fit(cls, X, "time", rot=rot)
    m2 = _fit(cls, X.transpose(*order), "time", rot=rot)
    B.covers("Stacker._stack (dimension order)")
    _cmp(B, f"transpose to {order}", m1, m2)


def h_permute_features(B, cls="EOF", n=4, p=3, perm=(2, 0, 1), rot=None, weights=False, dipole=False):
    cplx = cls == "ComplexEOF"
    if dipole:
        # same symbolic generality (a fixed matrix plus an arbitrary perturbation of every entry), but the WITNESS is a see-saw whose two
        # poles differ by 1e-7 relative: the leading mode has two extreme loadings of opposite sign and almost equal magnitude
        t = np.array([1.0, -2.0, 0.5, 0.5, 1.5, -1.5][:n])
        u = np.array([0.3, 0.1, -0.5, 0.1, -0.2, 0.2][:n]) * 0.2
        X0 = np.stack([t, -(1 + 1e-7) * t, u] + [0.1 * u * (j + 2) for j in range(p - 3)], axis=1)
        E = B.array((n, p), "x", lo=-1e-10, hi=1e-10)
        X = xr.DataArray(X0 + E, dims=("time", "x"), coords={"time": list(range(n)), "x": XS[:p]}, name="v_x")
    else:
        X = da2d(B, "x", n, p, cplx)
    w = None
    if weights:
        # one weights object, labelled by the feature coordinate, for both layouts of the data
        w = xr.DataArray(B.array((p,), "w", positive=True), dims=("x",), coords={"x": X["x"].values})
    m1 = _fit(cls, X, "time", rot=rot, weights=w)
    m2 = _fit(cls, X.isel(x=list(perm)), "time", rot=rot, weights=w)
    _cmp(B, f"feature permutation {perm}", m1, m2)


def h_reverse_axis(B, n=4, axis="lat"):
    """the same field with one feature axis stored in the opposite order (north-to-south latitudes): same value at the same label"""
    X = da3d(B, "x", n, 2, 2)
    m1 = _fit("EOF", X, "time")
    Xr = X.isel({axis: slice(None, None, -1)})
    m2 = _fit("EOF", Xr, "time")
    B.covers("Stacker._unstack_to_dataarray (non-ascending feature coordinate)")
    _cmp(B, f"{axis} stored in reverse order", m1, m2)
    r1 = m1.inverse_transform(m1.scores())
    r2 = m2.inverse_transform(m2.scores())
    B.eq(f"{axis} stored in reverse order: reconstruction at each label", r2, r1, ignore_order=True)


def h_list_item_reversed(B, n=4, which=1):
    """a list input in which ONE element stores the same samples in the opposite order: pairing is by label"""
    A = da2d(B, "xa", n, 2)
    Bv = da2d(B, "xb", n, 2, feat="y")
    items = [A, Bv]
    m1 = _fit("EOF", items, "time")
    items2 = list(items)
    items2[which] = items2[which].isel(time=slice(None, None, -1))
    m2 = _fit("EOF", items2, "time")
    B.covers("Concatenator.transform (alignment of list items by sample label)")
    _cmp(B, f"list item {which} stored in reverse sample order", m1, m2)


def h_permute_samples(B, cls="EOF", n=4, p=2, perm=(2, 0, 3, 1), rot=None):
    cplx = cls == "ComplexEOF"
    X = da2d(B, "x", n, p, cplx)
    m1 = _fit(cls, X, "time", rot=rot)
    m2 = _fit(cls, X.isel(time=list(perm)), "time", rot=rot)
    B.eq("sample permutation: singular values", m2.data["norms"], m1.data["norms"])
    B.eq("sample permutation: components", m2.components(), m1.components())
    B.eq("sample permutation: scores permuted identically", m2.scores(), m1.scores().isel(time=list(perm)))


def h_two_sample_dims(B, variant="list"):
    """two sample dimensions given as dim=("t1","t2"); one input (or one list element) stores them in the other order"""
    A = xr.DataArray(B.array((2, 3, 2), "a"), dims=("t1", "t2", "x"), coords={"t1": ["a", "b"], "t2": [0, 1, 2], "x": XS[:2]}, name="v_a")
    Bv = xr.DataArray(B.array((2, 3, 2), "b"), dims=("t1", "t2", "y"), coords={"t1": ["a", "b"], "t2": [0, 1, 2], "y": XS[:2]}, name="v_b")
    dim = ("t1", "t2")
    if variant == "list":
        m1 = _fit("EOF", [A, Bv], dim)
        m2 = _fit("EOF", [A, Bv.transpose("t2", "t1", "y")], dim)
        B.eq("list element with transposed sample dims: singular values", m2.data["norms"], m1.data["norms"])
        B.eq("list element with transposed sample dims: scores", m2.scores(), m1.scores(), ignore_order=True)
        B.eq("list element with transposed sample dims: components[1]", m2.components()[1], m1.components()[1])
    elif variant == "eeof":
        kw = {"tau": 1, "embedding": 2}
        m1 = _fit("ExtendedEOF", A, dim, **kw)
        m2 = _fit("ExtendedEOF", A.transpose("t2", "x", "t1"), dim, **kw)
        B.eq("ExtendedEOF, transposed sample dims: singular values", m2.data["norms"], m1.data["norms"])
        B.eq("ExtendedEOF, transposed sample dims: scores", m2.scores(), m1.scores(), ignore_order=True)
    elif variant == "dataarray":
        m1 = _fit("EOF", A, dim)
        m2 = _fit("EOF", A.transpose("x", "t2", "t1"), dim)
        B.eq("DataArray with transposed sample dims: singular values", m2.data["norms"], m1.data["norms"])
        B.eq("DataArray with transposed sample dims: scores", m2.scores(), m1.scores(), ignore_order=True)
        B.eq("DataArray with transposed sample dims: components", m2.components(), m1.components())


def h_split(B, container="dataset", n=4, p=4):
    X = da3d(B, "x", n, 2, p // 2)
    A, Bv = X.isel(lat=0, drop=True), X.isel(lat=1, drop=True)
    m1 = _fit("EOF", X, "time")
    c1 = m1.components()
    if container == "dataset":
        m2 = _fit("EOF", xr.Dataset({"A": A, "B": Bv}), "time")
        c2 = m2.components()
        B.eq("split over Dataset variables: components[A]", c2["A"], c1.isel(lat=0, drop=True))
        B.eq("split over Dataset variables: components[B]", c2["B"], c1.isel(lat=1, drop=True))
    else:
        m2 = _fit("EOF", [A, Bv], "time")
        c2 = m2.components()
        B.eq("split over list items: components[0]", c2[0], c1.isel(lat=0, drop=True))
        B.eq("split over list items: components[1]", c2[1], c1.isel(lat=1, drop=True))
    B.eq("split: singular values", m2.data["norms"], m1.data["norms"])
    B.eq("split: scores", m2.scores(), m1.scores())


def h_names(B, cls="EOF", names=("s", "f"), n=5, p=2, rot=None, extra=None):
    extra = dict(extra or {})
    cplx = cls == "ComplexEOF"
    X = da2d(B, "x", n, p, cplx)
    B.covers(f"{cls} with sample_name/feature_name")
    m1 = _fit(cls, X, "time", rot=rot, **extra)
    m2 = B.completes(f"{cls} fit with sample_name={names[0]!r}, feature_name={names[1]!r} runs", lambda: _fit(cls, X, "time", rot=rot, sample_name=names[0], feature_name=names[1], **extra))
    if m2 is None:
        return
    B.eq("other dimension names: singular values", m2.data["norms"], m1.data["norms"])
    B.eq("other dimension names: components", m2.components(), m1.components())
    B.eq("other dimension names: scores", m2.scores(), m1.scores())


def h_names_bootstrap(B, names=("s", "f")):
    from xeofs.validation import EOFBootstrapper

    X = da2d(B, "x", 4, 2)
    m2 = _fit("EOF", X, "time", sample_name=names[0], feature_name=names[1])
    B.covers("EOFBootstrapper.fit with sample_name/feature_name")
    B.completes(f"EOFBootstrapper.fit on a model with sample_name={names[0]!r} runs", lambda: EOFBootstrapper(n_bootstraps=1, seed=1).fit(m2))


def h_cross(B, variant="names", alpha=1.0):
    X = da2d(B, "x", 4, 3, feat="x")
    Y = da2d(B, "y", 4, 2, feat="y")
    m1 = M.cross("CPCCA", n_modes=2, alpha=alpha, use_pca=False).fit(X, Y, "time")
    if variant == "names":
        m2 = B.completes("cross fit with other names runs", lambda: M.cross("CPCCA", n_modes=2, alpha=alpha, use_pca=False, sample_name="s", feature_name=["f", "g"]).fit(X, Y, "time"))
        if m2 is None:
            return
        X2, Y2 = X, Y
    elif variant == "permute-features":
        X2, Y2 = X.isel(x=[2, 0, 1]), Y
        m2 = M.cross("CPCCA", n_modes=2, alpha=alpha, use_pca=False).fit(X2, Y2, "time")
    B.eq(f"cross {variant}: singular values", m2.data["singular_values"], m1.data["singular_values"])
    B.eq(f"cross {variant}: scores1", m2.scores()[0], m1.scores()[0])
    B.eq(f"cross {variant}: components1 at each label", m2.components()[0], m1.components()[0], ignore_order=True)
    B.eq(f"cross {variant}: components2", m2.components()[1], m1.components()[1])


def configs(tier):
    out = []

    def add(fn, key, **params):
        cfg = {"key": key, "fn": fn, "params": params, "options": {"sign": "real"}}
        if fn == "h_cross":
            cfg["options"]["full_rank"] = True
        out.append(cfg)

    for cls in ("EOF", "ComplexEOF"):
        if cls == "EOF" or tier == "thorough":
            add("h_transpose", f"{cls}|transpose", cls=cls)
            add("h_permute_samples", f"{cls}|permute samples", cls=cls)
        add("h_permute_features", f"{cls}|permute features", cls=cls, n=4, p=3 if cls == "EOF" else 2, perm=(2, 0, 1) if cls == "EOF" else (1, 0))
        add("h_names", f"{cls}|names=s,f", cls=cls)
    add("h_transpose", "EOF|transpose|order=lat,lon,time", order=("lat", "lon", "time"))
    add("h_permute_features", "EOFRotator|permute features", rot={"n_modes": 2, "power": 1})
    add("h_permute_features", "EOF|permute features|weights labelled by coordinate", weights=True)
    add("h_permute_features", "EOF|permute features|witness: see-saw with poles differing by 1e-7", perm=(1, 0, 2), dipole=True)
    add("h_reverse_axis", "EOF|3d|lat stored north-to-south", axis="lat")
    add("h_list_item_reversed", "EOF|list|second item stores the samples in reverse order", which=1)
    add("h_list_item_reversed", "EOF|list|first item stores the samples in reverse order", which=0)
    add("h_reverse_axis", "EOF|3d|lon stored in reverse", axis="lon")
    add("h_permute_samples", "EOFRotator|permute samples", p=3, rot={"n_modes": 2, "power": 1})
    add("h_names", "EOFRotator|names=s,f", p=3, rot={"n_modes": 2, "power": 1})
    add("h_names", "EOF|names=feature,sample (swapped literals)", names=("feature", "sample"))
    add("h_names", "EOF|names=mode2,x2", names=("mode2", "x2"))
    for v in ("list", "eeof", "dataarray"):
        add("h_two_sample_dims", f"two sample dims|{v}", variant=v)
    add("h_split", "EOF|split dataset", container="dataset")
    add("h_split", "EOF|split list", container="list")
    add("h_names", "ExtendedEOF|names=s,f", cls="ExtendedEOF", extra={"tau": 1, "embedding": 2})
    add("h_names", "HilbertEOF|names=s,f", cls="HilbertEOF", extra={"padding": "none"})
    add("h_names_bootstrap", "EOFBootstrapper|names=s,f")
    add("h_cross", "CPCCA|names", variant="names")
    add("h_cross", "CPCCA|alpha=0.5|names", variant="names", alpha=0.5)
    add("h_cross", "CPCCA|permute features of X", variant="permute-features")
    if tier == "thorough":
        import itertools as _it

        for perm in _it.permutations(range(3)):
            if perm != (0, 1, 2):
                add("h_permute_features", f"EOF|permute features {perm}", perm=perm)
        for perm in ((1, 0, 2, 3), (3, 2, 1, 0), (1, 2, 3, 0), (0, 3, 1, 2)):
            add("h_permute_samples", f"EOF|permute samples {perm}", perm=perm)
        for order in _it.permutations(("time", "lat", "lon")):
            add("h_transpose", f"EOF|transpose {order}", order=order)
        add("h_permute_features", "EOF|permute features|p4", p=4, perm=(3, 1, 0, 2))
        add("h_names", "EOF|names=time,x (user dim names reused)", names=("time", "x"))
        add("h_names", "ComplexEOFRotator|names=s,f", cls="ComplexEOF", p=3, rot={"n_modes": 2, "power": 1})
        add("h_cross", "CPCCA|alpha=0.0|names", variant="names", alpha=0.0)
    return out
