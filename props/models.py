"""Model factories and input layouts shared by the harnesses."""
from __future__ import annotations

import numpy as np
import pandas as pd
import xarray as xr

import symx.stubs  # noqa: F401
import xeofs as xe
import xeofs.cross as xc
import xeofs.single as xs

from .common import LATS, XS, da2d, da3d


def make_input(B, layout, n, p, cplx=False, flags=None, name="x", nan_cols=(), nan_rows=()):
    """-> (data object, sample dim(s), feature dims of the first item)"""
    if layout == "2d":
        return da2d(B, name, n, p, cplx), "time", ("x",)
    if layout == "2d-internal-names":
        # the user's dimensions are literally called like the model's internal ones
        return da2d(B, name, n, p, cplx, sample="sample", feat="feature"), "sample", ("feature",)
    if layout == "2d-T":
        X = da2d(B, name, n, p, cplx)
        return X.transpose("x", "time"), "time", ("x",)
    if layout == "3d-coslat" or layout == "3d":
        p1 = 2
        p2 = max(1, p // 2)
        return da3d(B, name, n, p1, p2, cplx), "time", ("lat", "lon")
    if layout == "3d-T":
        p1 = 2
        p2 = max(1, p // 2)
        return da3d(B, name, n, p1, p2, cplx, order=("lon", "time", "lat")), "time", ("lon", "lat")
    if layout == "dataset":
        pa = p // 2
        A = da2d(B, name + "a", n, pa, cplx)
        Bv = da2d(B, name + "b", n, p - pa, cplx, fcoords=XS[: p - pa])
        return xr.Dataset({"A": A, "B": Bv}), "time", ("x",)
    if layout == "list":
        pa = p // 2
        A = da2d(B, name + "a", n, pa, cplx)
        Bv = da2d(B, name + "b", n, p - pa, cplx, feat="y")
        return [A, Bv], "time", ("x",)
    if layout == "list12":
        # twelve list items, each with its own feature dimension name and size (1 or 2): keys '0'..'11' sort differently as strings
        items = [da2d(B, f"{name}{i}", n, 1 + (i % 2 if i < 2 else 0), cplx, feat=f"f{i}") for i in range(12)]
        return items, "time", ("f0",)
    if layout == "multiindex":
        n1 = 2
        n2 = (n + 1) // 2
        X = B.array((n1, n2, p), name, cplx)
        da = xr.DataArray(X, dims=("t1", "t2", "x"), coords={"t1": ["a", "b"][:n1], "t2": list(range(n2)), "x": XS[:p]}, name="v_" + name)
        return da, ("t1", "t2"), ("x",)
    if layout == "stacked-sample-ym":
        # user MultiIndex whose level names are NOT in alphabetical order
        X = B.array((2, 2, p), name, cplx)
        da = xr.DataArray(X, dims=("year", "month", "x"), coords={"year": [2001, 2000], "month": [12, 1], "x": XS[:p]}, name="v_" + name)
        return da.stack(time=("year", "month")), "time", ("x",)
    if layout == "stacked-sample":
        n1 = 2
        n2 = (n + 1) // 2
        X = B.array((n1, n2, p), name, cplx)
        da = xr.DataArray(X, dims=("t1", "t2", "x"), coords={"t1": ["a", "b"][:n1], "t2": list(range(n2)), "x": XS[:p]}, name="v_" + name)
        return da.stack(time=("t1", "t2")), "time", ("x",)
    raise ValueError(layout)


def extreme_witness(X, witness):
    """same symbolic generality (image of arbitrary data under an invertible affine map with concrete coefficients), but the
    WITNESS sits at an edge of the properties' quantifiers: witness = {'scale': 1e8} or {'offset': 1e7} (offset in units of the spread)"""
    if not witness or not isinstance(X, xr.DataArray):
        return X
    nm = X.name
    if "scale" in witness:
        X = X * float(witness["scale"])
    if "offset" in witness:
        X = X + float(witness["offset"])
    X.name = nm
    return X


def make_weights(B, X, fdims, name="w"):
    def one(da, nm):
        dims = [d for d in da.dims if d in fdims or d in ("x", "y", "lat", "lon")]
        dims = [d for d in dims if d not in ("time", "t1", "t2")]
        W = B.array(tuple(da.sizes[d] for d in dims), nm, positive=True)
        return xr.DataArray(W, dims=dims, coords={d: da.coords[d] for d in dims})

    if isinstance(X, list):
        return [one(x, f"{name}{i}") for i, x in enumerate(X)]
    if isinstance(X, xr.Dataset):
        return xr.Dataset({v: one(X[v], f"{name}{v}") for v in X.data_vars})
    return one(X, name)


def single(cls, **kw):
    C = getattr(xs, cls)
    return C(**kw)


def cross(cls, alpha=1.0, **kw):
    C = getattr(xc, cls)
    if cls in ("CPCCA", "ComplexCPCCA", "HilbertCPCCA"):
        kw["alpha"] = alpha
    return C(**kw)


def rotate(model, n_modes=2, power=1, **kw):
    name = type(model).__name__ + "Rotator"
    R = getattr(xs, name)
    return R(n_modes=n_modes, power=power, **kw).fit(model)


def rotate_cross(model, n_modes=2, power=1, **kw):
    name = type(model).__name__
    cand = {"CPCCA": "CPCCARotator", "ComplexCPCCA": "ComplexCPCCARotator", "HilbertCPCCA": "HilbertCPCCARotator", "MCA": "MCARotator", "ComplexMCA": "ComplexMCARotator", "HilbertMCA": "HilbertMCARotator"}[name]
    R = getattr(xc, cand)
    return R(n_modes=n_modes, power=power, **kw).fit(model)
