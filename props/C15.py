"""C15 - solver choice, variance thresholds, seeds and solver_kwargs behave as documented."""
from __future__ import annotations

import numpy as np
import xarray as xr

from .common import *  # noqa
from . import models as M

EXPLANATION = (
    "(a) Threshold truncation: Decomposer.fit and _SVD.fit_transform run on symbolic centred data with a SYMBOLIC fraction f in (0,1] (a float subclass whose "
    "comparisons fork); on every path the number m of kept modes must satisfy cum_m >= f and (m == 1 or cum_{m-1} < f), or cum_last < f and m == all precomputed "
    "modes - decided by the solver from the path condition. (b) Policy: n, p, n_modes symbolic integers on a shape-only stand-in; the routine handed to _svd is "
    "recorded and must be the exact one iff solver == 'full' or (auto and max(n,p) < 500 and n_modes > floor(0.8 min(n,p))). (c) seeds / solver_kwargs given to the "
    "model constructors must reach the recorded solver call unchanged. (d) sign convention: the real function on a symbolic matrix returns +-1 per mode such that the "
    "largest-magnitude loading is positive on every non-tie path, and flips when the matrix is negated."
)
FUNCTIONS = ["Decomposer.__init__/fit", "_SVD.fit_transform", "SVD.fit_transform", "PCA.fit", "sanity_check_n_modes", "get_deterministic_sign_multiplier (xarray and numpy versions)", "POP.__init__ (solver_kwargs)", "BaseModelCrossSet.__init__ (solver_kwargs)"]
BOUNDS = {
    "quick": {"threshold": "n=5, p=3..4, all fractions in [0.05, 1]", "policy": "n, p in [2, 4000], n_modes in [1, 4000] (symbolic)", "sign": "k=2 modes x p=3 loadings"},
    "thorough": {"threshold": "n=5..6, p=3..5, init_rank_reduction symbolic in (0,1]", "policy": "same", "sign": "k=2 x p=4"},
}
OUTSIDE = ["bit-identical reruns for equal seeds (RNG streams and LAPACK determinism are below the stub line)", "agreement of the exact and randomised subspaces under a spectral gap (accuracy of sklearn's algorithm)", "dask back-end (C12)", "integrality of floor(0.8*rank) is not known to the real-arithmetic solver (weaker, sound)"]
TRUSTED = ["SVD contract (descending non-negative singular values)"]
ASSUMPTIONS = ["total variance > 0"]


def _centred(B, n, p):
    X = B.array((n, p), "x")
    X = X - X.mean(axis=0)
    return xr.DataArray(X, dims=("sample", "feature"), coords={"sample": list(range(n)), "feature": list(range(p))})


def _threshold_obligations(B, s, f, n, tv, npre, warned):
    m = s.shape[0]
    cum = np.cumsum(s * s) / (n - 1) / tv
    B.check("at least one mode and at most the precomputed ones", 1 <= m <= npre, f"m={m}")
    B.note(f"path keeps m={m} of {npre}")
    if m < npre:
        B.ge(f"m={m}: kept modes reach the fraction", cum[m - 1 : m], f)
    else:
        # all precomputed modes kept: either they are needed, or the fraction cannot be reached (warning)
        pass
    if m > 1:
        B.ge(f"m={m}: one mode fewer would not reach the fraction", f, cum[m - 2 : m - 1])


def h_threshold_decomposer(B, n=5, p=3, irr=1.0, f_fixed=None):
    import warnings as W

    from xeofs.linalg.decomposer import Decomposer

    da = _centred(B, n, p)
    tv = da.var("sample", ddof=1).sum("feature").data
    B.assume_gt(tv, 0.0, "total variance > 0")
    f = B.sym_float("f", 0.05, 1.0) if f_fixed is None else f_fixed  # the float 1.0 is a fraction (100 %), not a count
    d = Decomposer(n_modes=f, init_rank_reduction=irr, solver="full")
    B.covers("Decomposer.fit (variance threshold)")
    with W.catch_warnings(record=True) as rec:
        W.simplefilter("always")
        d.fit(da)
    npre = max(1, int(min(n, p) * irr))
    warned = any("explained variance was requested" in str(w.message) for w in rec)
    _threshold_obligations(B, d.s_.data, f, n, tv, npre, warned)
    m = d.s_.shape[0]
    B.check("U_, s_, V_ truncated consistently", d.U_.sizes["mode"] == m and d.V_.sizes["mode"] == m, "mode sizes differ")
    if m == npre and npre < min(n, p):
        cum_last = (np.cumsum(d.s_.data * d.s_.data) / (n - 1) / tv)[m - 1 : m]
        if warned:
            B.ge("warning only when the fraction is not reached", f, cum_last)


def h_threshold_svd(B, n=5, p=3, f_fixed=None):
    from xeofs.linalg._numpy._svd import _SVD

    da = _centred(B, n, p)
    tv = da.var("sample", ddof=1).sum("feature").data
    B.assume_gt(tv, 0.0, "total variance > 0")
    f = B.sym_float("f", 0.05, 1.0) if f_fixed is None else f_fixed
    svd = _SVD(n_modes=f, init_rank_reduction=1.0, solver="full")
    B.covers("_SVD.fit_transform (variance threshold)")
    U, s, V = svd.fit_transform(da.data)
    _threshold_obligations(B, s, f, n, tv, min(n, p), False)
    B.check("U, s, V truncated consistently", U.shape[1] == s.shape[0] == V.shape[1], "shapes differ")


class _ShapeOnly:
    """stand-in for a 2-D DataArray of which Decomposer.fit only inspects shape / data type before calling _svd"""

    def __init__(self, n, p):
        self.shape = (n, p)
        self.data = np.zeros((2, 2))
        self.dims = ("sample", "feature")
        self.sizes = {"sample": n, "feature": p}
        self.ndim = 2
        self.dtype = np.dtype("float64")


class _Stop(Exception):
    pass


def h_policy(B, solver="auto"):
    from sklearn.utils.extmath import randomized_svd  # noqa

    import xeofs.linalg.decomposer as dec

    n = B.sym_int("n", 2, 4000)
    p = B.sym_int("p", 2, 4000)
    k = B.sym_int("k", 1, 4000)
    d = dec.Decomposer(n_modes=k, solver=solver)
    chosen = {}

    def rec(X, dims, func, kwargs):
        chosen["func"] = getattr(func, "__name__", str(func))
        chosen["kwargs"] = kwargs
        raise _Stop()

    d._svd = rec
    B.covers("Decomposer.fit (solver policy)")
    raised = None
    try:
        d.fit(_ShapeOnly(n, p))
    except _Stop:
        pass
    except ValueError as e:
        raised = e
    rank_small = bool(n <= p)
    rank = n if rank_small else p
    big = p if rank_small else n
    if bool(k > rank):
        B.check("n_modes > rank is refused", raised is not None, "no ValueError for n_modes > rank")
        return
    B.check("n_modes <= rank is accepted", raised is None, f"raised {raised}")
    if raised is not None:
        return
    exact = chosen["func"] == "svd"
    B.check("only the exact or the randomized routine is selected", chosen["func"] in ("svd", "randomized_svd_stub", "randomized_svd"), f"selected {chosen['func']}")
    if solver == "full":
        B.check("solver='full' selects the exact routine", exact, chosen["func"])
    elif solver == "randomized":
        B.check("solver='randomized' selects the randomized routine", not exact, chosen["func"])
    else:
        small = bool(big < 500)
        many = bool(k > int(0.8 * rank))
        B.check("auto: exact iff (max(n,p) < 500 and n_modes > int(0.8*rank))", exact == (small and many), f"exact={exact} small={small} many={many}")
    if not exact:
        B.check("randomized call asks for n_modes components", chosen["kwargs"].get("n_components") is k, f"n_components={chosen['kwargs'].get('n_components')}")


def _last_solver_call(B):
    if not B.sym:
        calls = getattr(B, "solver_calls", [])
        return calls[-1] if calls else None
    for s in reversed(B.ctx.stub_log):
        if s["stub"] in ("randomized_svd", "svds", "np.linalg.svd") and "kwargs" in s:
            return s
    return None


def h_kwargs(B, target="EOF", n=5, p=4, seed=12345):
    """documented pass-through options must be accepted and reach the solver"""
    kw = {"n_oversamples": 7}
    B.covers(f"{target} solver_kwargs / random_state forwarding")
    if target in ("EOF", "ComplexEOF", "ExtendedEOF", "OPA", "POP", "SparsePCA"):
        X = da2d(B, "x", n, p, target == "ComplexEOF")
        extra = {"ExtendedEOF": {"tau": 1, "embedding": 2}, "OPA": {"tau_max": 1, "n_pca_modes": 2}, "POP": {"n_pca_modes": 2}}.get(target, {})
        if target == "ComplexEOF":
            kw = {"tol": 1e-9}
        mk = lambda: M.single(target, n_modes=2, solver="randomized", random_state=seed, solver_kwargs=kw, **extra)  # noqa
        m = B.completes(f"{target}(solver_kwargs={kw}) constructs and fits", lambda: mk().fit(X, "time"))
    elif target in ("CPCCA", "MCA"):
        X = da2d(B, "x", n, p, feat="x")
        Y = da2d(B, "y", n, 3, feat="y")
        m = B.completes(f"{target}(solver_kwargs={kw}) constructs and fits", lambda: M.cross(target, n_modes=2, use_pca=False, solver="randomized", random_state=seed, solver_kwargs=kw).fit(X, Y, "time"))
    elif target == "CPCCA+PCA":
        X = da2d(B, "x", n, p, feat="x")
        Y = da2d(B, "y", n, 3, feat="y")
        m = B.completes(f"CPCCA(use_pca=True, solver_kwargs={kw}) constructs and fits", lambda: M.cross("CPCCA", n_modes=2, use_pca=True, n_pca_modes=2, solver="randomized", random_state=seed, solver_kwargs=kw).fit(X, Y, "time"))
    else:
        raise ValueError(target)
    if m is None:
        return
    call = _last_solver_call(B)
    if call is not None:
        got = call["kwargs"]
        for k_, v_ in kw.items():
            B.check(f"option {k_} reaches the solver unchanged", got.get(k_) == v_, f"solver received {got}")
        B.check("random_state reaches the solver unchanged", got.get("random_state") == seed or got.get("seed") == seed, f"solver received {got}")


def h_sign(B, version="xarray", k=2, p=3):
    from xeofs.linalg._numpy._svd import get_deterministic_sign_multiplier as np_sign
    from xeofs.utils.xarray_utils import get_deterministic_sign_multiplier as xr_sign

    V = B.array((k, p), "v")
    B.covers(f"get_deterministic_sign_multiplier ({version})")
    if version == "xarray":
        da = xr.DataArray(V, dims=("mode", "feature"), coords={"mode": list(range(1, k + 1)), "feature": list(range(p))})
        sg = xr_sign(da, "feature")
        sgn = xr_sign(-da, "feature")
        s1, s2 = np.asarray(sg.data if not hasattr(sg.data, "a") else sg.data), np.asarray(sgn.data if not hasattr(sgn.data, "a") else sgn.data)
        W = V * s1[:, None]
    else:
        Vt = V.T  # (feature, mode), axis=0
        s1 = np_sign(Vt, axis=0)
        s2 = np_sign(-Vt, axis=0)
        W = V * (s1[:, None] if not hasattr(s1, "a") else s1.reshape((k, 1)))
    B.eq("sign multiplier is +-1", s1 * s1, np.ones(k))
    B.eq("negating the matrix flips the multiplier", s2, -s1)
    for m_ in range(k):
        row = W[m_]
        for j in range(p):
            for l in range(p):
                pass
        mx, mn = np.max(row), np.min(row)
        B.ge(f"mode {m_ + 1}: largest-magnitude loading is positive (max >= -min)", mx + mn, 0.0)


def configs(tier):
    out = []

    def add(fn, key, options=None, **params):
        cfg = {"key": key, "fn": fn, "params": params}
        if options:
            cfg["options"] = options
        out.append(cfg)

    for p in (3, 4) if tier == "quick" else (3, 4, 5):
        add("h_threshold_decomposer", f"threshold|Decomposer|n5p{p}", n=5, p=p)
        add("h_threshold_svd", f"threshold|_SVD|n5p{p}", n=5, p=p)
    add("h_threshold_decomposer", "threshold|Decomposer|n5p4|init_rank_reduction=0.5", n=5, p=4, irr=0.5)
    add("h_threshold_decomposer", "threshold|Decomposer|n5p3|fraction exactly 1.0", n=5, p=3, f_fixed=1.0)
    add("h_threshold_svd", "threshold|_SVD|n5p3|fraction exactly 1.0", n=5, p=3, f_fixed=1.0)
    add("h_threshold_svd", "threshold|_SVD|n5p3|fraction numpy.float64(0.5)", n=5, p=3, f_fixed=np.float64(0.5))
    for solver in ("auto", "full", "randomized"):
        add("h_policy", f"policy|{solver}", solver=solver, options={"max_forks": 60})
    for t in ("EOF", "ComplexEOF", "ExtendedEOF", "POP", "CPCCA", "MCA", "CPCCA+PCA"):
        add("h_kwargs", f"kwargs|{t}", target=t, options={"full_rank": True})
    # seed 0 is a valid seed (and the classic victim of `if seed:`)
    for t in ("EOF", "ComplexEOF", "MCA") if tier == "quick" else ("EOF", "ComplexEOF", "ExtendedEOF", "POP", "CPCCA", "MCA", "CPCCA+PCA"):
        add("h_kwargs", f"kwargs|{t}|random_state=0", target=t, seed=0, options={"full_rank": True})
    add("h_sign", "sign|xarray", version="xarray", options={"sign": "real", "abs": "fork", "extreme": "fork", "ite_merge": False})
    add("h_sign", "sign|numpy", version="numpy", options={"sign": "real", "abs": "fork", "extreme": "fork", "ite_merge": False})
    return out
