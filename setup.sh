#!/bin/sh
# Build /verif/.venv offline: overlay on /venv (repo deps) + crosshair-tool, z3-solver, cvc5, jsonschema from the wheelhouse.
set -e
cd "$(dirname "$0")"
if [ ! -x .venv/bin/python ] || ! .venv/bin/python -c "import z3, crosshair, xarray, jsonschema" 2>/dev/null; then
  rm -rf .venv
  /venv/bin/python -m venv .venv
  SP=$(.venv/bin/python -c "import sysconfig;print(sysconfig.get_paths()['purelib'])")
  printf "import site; site.addsitedir('/venv/lib/python3.12/site-packages')\n/repo\n" > "$SP/zz_overlay.pth"
  PIP_NO_INDEX=1 .venv/bin/python -m pip install -q --no-index --find-links /opt/veriftools/wheels crosshair-tool z3-solver cvc5 jsonschema
fi
.venv/bin/python -c "import z3, crosshair, xarray, xeofs, jsonschema; print('setup ok', z3.get_version_string(), xeofs.__file__)"
